"""C04 — products and contractions agree with NumPy for all operand kinds; and they always return.

Every call into pydata/sparse made by this check runs in a worker subprocess under a watchdog
(harness/c04_pool.py): a `nogil` numba loop cannot be interrupted, so a call that does not answer
within its deadline is killed and reported as the failing input ("hang").
"""
from __future__ import annotations

import itertools
import json
import os
import threading
import time

import numpy as np

import c04_pool
import core
import findings
import findings_c04
import gen
import oracle

PID = "C04"
TRUSTED = [
    "Lean 4 kernel; axioms propext, Classical.choice, Quot.sound only (audited per theorem each run)",
    "tie T2: hand model SparseV.Model.Dot (ten product kernels, three nnz pre-counts, the `_dot` decision function, tensordot axis "
    "bookkeeping) compared by this run with the implementation: every kernel called directly (jitted and .py_func) on generated "
    "CSR/CSC/COO triples, representation level (data, indices incl. emission order, indptr, allocation size, ZeroDivisionError, hang); "
    "`_dot` instrumented for kernel, orientation, constructor promises and result type",
    "SparseV.Spec.Matmul.matmulSpec compared with numpy `@` by this run (spec validation)",
    "NumPy is the reference for leg C; dtype promotion and float rounding are outside the theorems",
    "the watchdog (subprocess + deadline) decides 'does not return'",
]
RTS = ["none", "coo", "gcxs", "nd"]
HANG_DEADLINE = 15.0


# ------------------------------------------------------------------------------------------------
# generators
# ------------------------------------------------------------------------------------------------

EXT = [0, 1, 1, 2, 2, 3, 3, 4]


def small_dense(rng, shape, density=None):
    """small integers in [-2, 2] so that sums cancel often"""
    if density is None:
        density = float(rng.choice([0.0, 0.2, 0.5, 0.8, 1.0]))
    x = rng.integers(-2, 3, size=shape).astype(np.int64)
    return np.where(rng.random(size=shape) < density, x, 0).astype(np.int64)


def spec_of(d, fmt, ca=None, dtype="int64"):
    # generated values are real (small integers), whatever the dtype: JSON carries the real part
    return {"dense": np.real(np.asarray(d)).tolist(), "shape": list(np.shape(d)), "dtype": dtype, "fmt": fmt, "ca": list(ca) if ca is not None else None}


def rand_fmt(rng, ndim, allowed):
    f = str(rng.choice(allowed))
    if f.startswith("scipy") and ndim != 2:
        f = str(rng.choice(["coo", "gcxs"]))
    ca = None
    if f == "gcxs" and ndim >= 2:
        ch = gen.compressed_axes_choices(ndim)
        ca = ch[int(rng.integers(len(ch)))]
    return f, ca


def csr_from_dense(rng, d, shuffle=False, dups=False, zeros=False):
    """CSR triple of a 2-d integer array; optionally rows in shuffled order, a duplicated entry split in two, explicit zeros"""
    indptr, indices, data = [0], [], []
    for r in range(d.shape[0]):
        row = [(int(c), int(d[r, c])) for c in range(d.shape[1]) if d[r, c] != 0 or (zeros and rng.random() < 0.15)]
        if dups and row and rng.random() < 0.5:
            c, v = row[int(rng.integers(len(row)))]
            row.append((c, int(rng.integers(-2, 3))))
        if shuffle:
            row = [row[i] for i in rng.permutation(len(row))]
        indices += [c for c, _ in row]
        data += [v for _, v in row]
        indptr.append(len(indices))
    return {"indptr": indptr, "indices": indices, "data": data}


def coo_ents(d, by_col=False):
    """(c0, c1, data) of the canonical COO of a 2-d array (or of its transpose: c0 = column)"""
    idx = np.argwhere((d.T if by_col else d) != 0)
    dd = d.T if by_col else d
    return {"c0": [int(i) for i, _ in idx], "c1": [int(j) for _, j in idx], "data": [int(dd[i, j]) for i, j in idx]}


def mk_dims(rng):
    return tuple(int(rng.choice(EXT)) for _ in range(3))


# ------------------------------------------------------------------------------------------------
# leg A: kernels called directly, model vs implementation on representation
# ------------------------------------------------------------------------------------------------

KERNELS = ["csr_csr_count", "csr_csr", "csr_nd", "csr_nd_count", "csr_nd_sparse", "csc_nd", "csc_nd_count", "csc_nd_sparse",
           "coo_coo", "coo_nd", "coo_nd_sparse", "nd_coo", "nd_coo_sparse"]


def kernel_case(rng, name, dims=None, mats=None):
    """-> (worker args, model request, info)"""
    m, k, n = dims if dims is not None else mk_dims(rng)
    a, b = mats if mats is not None else (small_dense(rng, (m, k)), small_dense(rng, (k, n)))
    wild = mats is None and rng.random() < 0.35
    info = {"m": m, "k": k, "n": n, "a": a.tolist(), "b": b.tolist(), "box": mats is not None and dims == (2, 2, 1)}
    if name in ("csr_csr_count", "csr_csr"):
        A = csr_from_dense(rng, a, shuffle=wild, dups=wild, zeros=wild)
        B = csr_from_dense(rng, b, shuffle=wild, dups=wild, zeros=wild)
        args = {"shape": [m, n], "A": A, "B": B}
        req = ["c04_" + name, [m, n], A, B]
    elif name in ("csr_nd", "csr_nd_count", "csr_nd_sparse"):
        A = csr_from_dense(rng, a, shuffle=wild, dups=wild, zeros=wild)
        args = {"shape": [m, n], "A": A, "b": b.tolist(), "bshape": [k, n]}
        req = ["c04_" + name, [m, n], A, b.tolist()]
    elif name in ("csc_nd", "csc_nd_count", "csc_nd_sparse"):
        A = csr_from_dense(rng, a.T, shuffle=wild, dups=wild, zeros=wild)  # columns of a
        args = {"ashape": [m, k], "bshape": [k, n], "A": A, "b": b.tolist()}
        req = ["c04_" + name, [m, k], [k, n], A, b.tolist()]
    elif name == "coo_coo":
        A = csr_from_dense(rng, a)
        B = csr_from_dense(rng, b)
        arows = [r for r in range(m) for _ in range(A["indptr"][r + 1] - A["indptr"][r])]
        brows = [r for r in range(k) for _ in range(B["indptr"][r + 1] - B["indptr"][r])]
        args = {"shape": [m, n], "A": A, "B": B, "arows": arows, "brows": brows}
        req = ["c04_coo_coo", [m, n], A, B]
        info["arows"], info["brows"] = arows, brows
    elif name in ("coo_nd", "coo_nd_sparse"):
        e = coo_ents(a)
        x2 = b.T
        args = {"ents": e, "x2": x2.tolist(), "x2shape": [n, k], "shape": [m, n]}
        req = ["c04_" + name, e, x2.tolist(), [m, n], len(e["data"]) + 2]
    elif name in ("nd_coo", "nd_coo_sparse"):
        e = coo_ents(b, by_col=(name == "nd_coo_sparse"))
        args = {"ents": e, "x1": a.tolist(), "x1shape": [m, k], "shape": [m, n]}
        req = ["c04_" + name, a.tolist(), e, [m, n]]
    else:
        raise ValueError(name)
    return args, req, info


def kernel_expect_hang(name, args):
    return name in ("coo_nd", "coo_nd_sparse") and args["shape"][1] == 0 and len(args["ents"]["data"]) > 0


def compare_kernel(name, args, got, model, active):
    """None when implementation and model agree on the representation, else a description"""
    if "hang" in got:
        return None if model.get("err") == "hang" else f"implementation does not return within {got['hang']}s, model {json.dumps(model)[:120]}"
    if "crash" in got:
        return f"worker died with status {got['crash']}"
    if "raised" in got:
        if got["raised"] == "ZeroDivisionError" and model.get("err") == "zerodiv":
            return None
        return f"implementation raised {got['raised']}: {got['msg']}; model {json.dumps(model)[:120]}"
    g = got["ok"]
    if "ok" not in model:
        return f"model {model}, implementation returned {json.dumps(g)[:120]}"
    w = model["ok"]
    if name in ("csr_csr_count",):
        return None if g["nnz"] == w else f"nnz {g['nnz']} model {w}"
    if name in ("csr_nd", "csc_nd", "coo_nd", "nd_coo"):
        sh = args.get("shape") or [args["ashape"][0], args["bshape"][1]]
        gd = np.array(g["dense"], dtype=np.int64).reshape(sh)
        wd = np.array(w, dtype=np.int64).reshape(sh)
        return None if np.array_equal(gd, wd) else f"dense {gd.tolist()} model {wd.tolist()}"
    if name == "csr_nd_count":
        return None if (g["nnz"], g["indptr"]) == (w["nnz"], w["indptr"]) else f"{g} model {w}"
    if name == "csc_nd_count":
        return None if (g["nnz"], g["indptr_tail"]) == (w["nnz"], w["indptr_tail"]) else f"{g} model {w}"
    if name in ("csr_csr", "csr_nd_sparse"):
        same = (g["data"], g["indices"], g["indptr"], g["alloc"]) == (w["data"], w["indices"], w["indptr"], w["alloc"])
        return None if same else f"{g} model {w}"
    if name == "csc_nd_sparse":
        # the model lists the entries written; the implementation's arrays have `alloc` slots, of which
        # only the first len(written) are defined
        nw = len(w["data"])
        same = g["alloc"] == w["alloc"] and g["indptr"] == w["indptr"] and g["data"][:nw] == w["data"] and g["indices"][:nw] == w["indices"]
        return None if same else f"{g} model {w}"
    if name == "coo_coo":
        same = (g["rows"], g["cols"], g["data"], g["alloc"]) == (w["rows"], w["cols"], w["data"], w["alloc"])
        return None if same else f"{g} model {w}"
    if name in ("coo_nd_sparse", "nd_coo_sparse"):
        same = (g["rows"], g["cols"], g["data"]) == (w["rows"], w["cols"], w["data"])
        return None if same else f"{g} model {w}"
    raise ValueError(name)


def densified(name, args, info, g):
    """the dense matrix a kernel output (implementation form) stands for, or None for the pre-counts"""
    m, n = info["m"], info["n"]
    if name in ("coo_nd", "nd_coo", "csr_nd", "csc_nd"):
        return np.array(g["dense"], dtype=np.int64).reshape(m, n)
    d = np.zeros((m, n), dtype=np.int64)
    if name in ("coo_nd_sparse", "nd_coo_sparse", "coo_coo"):
        for r, c, v in zip(g["rows"], g["cols"], g["data"]):
            d[r, c] += v
    elif name in ("csr_csr", "csr_nd_sparse"):
        for r in range(m):
            for p in range(g["indptr"][r], g["indptr"][r + 1]):
                d[r, g["indices"][p]] += g["data"][p]
    elif name == "csc_nd_sparse":
        for c in range(n):
            for p in range(g["indptr"][c], g["indptr"][c + 1]):
                d[g["indices"][p], c] += g["data"][p]
    else:
        return None
    return d


def operands_of(name, args, info):
    """the operands the kernel arguments stand for (triples may carry duplicates / explicit zeros)"""
    m, k, n = info["m"], info["k"], info["n"]
    a, b = np.array(info["a"], dtype=np.int64).reshape(m, k), np.array(info["b"], dtype=np.int64).reshape(k, n)
    if name in ("csr_csr", "csr_csr_count"):
        a, b = dense_of_csr(args["A"], m, k), dense_of_csr(args["B"], k, n)
    elif name in ("csr_nd", "csr_nd_count", "csr_nd_sparse"):
        a = dense_of_csr(args["A"], m, k)
    elif name in ("csc_nd", "csc_nd_count", "csc_nd_sparse"):
        a = dense_of_csr(args["A"], k, m).T
    return a, b


def spec_check_kernel(name, args, info, got):
    """used instead of the model inside a finding's region once the defect is repaired: the kernel's
    output, densified, must be the matrix product"""
    if "ok" not in got:
        return f"no result: {json.dumps(got)[:120]}"
    a, b = operands_of(name, args, info)
    try:
        d = densified(name, args, info, got["ok"])
    except (IndexError, KeyError, ValueError) as e:
        return f"kernel output is not a well-formed representation: {type(e).__name__}: {e}"
    if d is None:
        return None
    ref = a @ b
    if not np.array_equal(d, ref):
        return f"kernel output densifies to {d.tolist()}, product is {ref.tolist()}"
    g = got["ok"]
    if name in ("csr_csr", "csc_nd_sparse"):
        # the repaired kernels promise what the old ones broke: every allocated slot written, segments sorted
        ip = g["indptr"]
        if len(g["data"]) != g["alloc"] or len(g["indices"]) != g["alloc"] or ip[0] != 0 or ip[-1] != g["alloc"] or any(x > y for x, y in zip(ip, ip[1:])):
            return f"index pointer / allocation inconsistent: {g}"
        for r in range(len(ip) - 1):
            seg = g["indices"][ip[r]:ip[r + 1]]
            if any(x > y for x, y in zip(seg, seg[1:])):
                return f"segment {r} of the kernel output is not sorted: {seg}"
    return None


def model_vs_spec(name, args, info, model):
    """the statements about the kernel models that are only *stated* in Lean (Statement_*_kernel_spec)
    are validated here on every generated case: model output, densified, equals the product."""
    if "ok" not in model:
        return None
    w = model["ok"]
    if name in ("csr_nd", "csc_nd", "coo_nd", "nd_coo"):
        g = {"dense": w}
    elif name == "csc_nd_sparse":
        if len(w["data"]) != w["alloc"]:
            return None  # ExcludedCscCancel: slots stay unwritten
        g = w
    elif name in ("csr_csr_count", "csr_nd_count", "csc_nd_count"):
        return None
    else:
        g = w
    a, b = operands_of(name, args, info)
    d = densified(name, args, info, g)
    ref = a @ b
    return None if np.array_equal(d, ref) else f"model output densifies to {d.tolist()}, matmulSpec/numpy gives {ref.tolist()}"


def dense_of_csr(t, nrows, ncols):
    d = np.zeros((nrows, ncols), dtype=np.int64)
    for r in range(nrows):
        for p in range(t["indptr"][r], t["indptr"][r + 1]):
            d[r, t["indices"][p]] += t["data"][p]
    return d


def csc_cancels(args, model):
    return "ok" in model and len(model["ok"]["data"]) != model["ok"]["alloc"]


def leg_a_kernels(ctx, rng, pool, active, n_per, exhaustive=False):
    jobs, metas = [], []
    hang_budget = {"coo_nd": 1, "coo_nd_sparse": 1}
    for name in KERNELS:
        cases = []
        # corpus: the witnesses of the Lean counterexamples and edge shapes
        corpus = [((3, 3, 0), (np.eye(3, dtype=np.int64), np.zeros((3, 0), dtype=np.int64))),
                  ((0, 3, 3), (np.zeros((0, 3), dtype=np.int64), np.eye(3, dtype=np.int64))),
                  ((1, 2, 1), (np.array([[1, -1]]), np.array([[1], [1]]))),
                  ((1, 2, 3), (np.array([[1, 1]]), np.array([[3, 0, 4], [0, 5, -4]]))),
                  ((2, 2, 2), (np.ones((2, 2), dtype=np.int64), np.ones((2, 2), dtype=np.int64))),
                  ((2, 3, 2), (np.array([[1, 0, -1], [0, 0, 0]]), np.array([[2, 5], [9, 9], [2, 1]])))]
        for dims, mats in corpus:
            cases.append(kernel_case(rng, name, dims, (np.asarray(mats[0], dtype=np.int64), np.asarray(mats[1], dtype=np.int64))))
        for _ in range(n_per):
            cases.append(kernel_case(rng, name))
        if exhaustive:
            # every 2x2 by 2x1 product over {-1, 0, 1}
            for av in itertools.product((-1, 0, 1), repeat=4):
                for bv in itertools.product((-1, 0, 1), repeat=2):
                    cases.append(kernel_case(rng, name, (2, 2, 1), (np.array(av, dtype=np.int64).reshape(2, 2), np.array(bv, dtype=np.int64).reshape(2, 1))))
        for args, req, info in cases:
            for py in ((False,) if (exhaustive and info.get("box")) else (False, True)):
                hang = kernel_expect_hang(name, args)
                if hang:
                    if py or hang_budget[name] <= 0:
                        continue  # one replay of the non-returning loop per kernel is enough
                    hang_budget[name] -= 1
                job = {"kind": "kernel", "name": name, "args": args, "py": py, "_affinity": f"k:{name}"}
                if hang and active.get("F-coo-nd-zero-cols-hang", True):
                    job["_fresh"], job["_deadline"] = True, HANG_DEADLINE
                jobs.append(job)
                metas.append((name, args, req, info, py))
    outs = ctx.driver.run([m[2] for m in metas])
    gots = yield jobs
    for (name, args, req, info, py), got, model in zip(metas, gots, outs):
        case = {"kernel": name, "py_func": py, "args": args}
        nontrivial = bool(info["m"] and info["n"] and info["k"] and (np.any(np.array(info["a"])) or np.any(np.array(info["b"]))))
        ctx.case(f"A:kernel:{name}:{'py' if py else 'jit'}", case, nontrivial=nontrivial)
        # inside the region of a finding whose defect is gone, the (defect-faithful) model no longer
        # applies: there the implementation is held to the specification instead
        repaired = None
        if kernel_expect_hang(name, args) and not active.get("F-coo-nd-zero-cols-hang", True):
            repaired = "F-coo-nd-zero-cols-hang"
        if name == "csr_csr" and model.get("err") == "zerodiv" and not active.get("F-csr-csr-zero-cols", True):
            repaired = "F-csr-csr-zero-cols"
        if name == "csc_nd_sparse" and csc_cancels(args, model) and not active.get("F-csc-nd-sparse-cancel", True):
            repaired = "F-csc-nd-sparse-cancel"
        if name == "csr_csr" and not active.get("F-csr-csr-unsorted", True) and model.get("err") != "zerodiv":
            repaired = repaired or "F-csr-csr-unsorted"  # emission order is no longer the linked-list order
        if name == "csc_nd_sparse" and not active.get("F-csc-nd-sparse-unsorted", True):
            repaired = repaired or "F-csc-nd-sparse-unsorted"
        if repaired:
            ctx.count("leg_a_region_of_repaired_finding")
            msg = spec_check_kernel(name, args, info, got)
        else:
            msg = compare_kernel(name, args, got, model, active)
        if msg:
            ctx.fail("A", f"kernel:{name}", case, msg)
        if not py:
            ms = model_vs_spec(name, args, info, model)
            ctx.count("model_vs_spec_checks")
            if ms:
                ctx.fail("B", f"model_spec:{name}", case, ms)
    ctx.count("leg_a_kernel_calls", len(jobs))


# ---- `_dot`: which kernel, which orientation, which constructor promises, which result type ----------

KINDS = ["coo", "gcxs0", "gcxs1", "nd"]


def kind_spec(d, kind):
    if kind == "coo":
        return spec_of(d, "coo")
    if kind == "nd":
        return spec_of(d, "nd")
    return spec_of(d, "gcxs", ca=[int(kind[-1])])


def observed_orientation(call, a_shape, b_shape, b_dense):
    m, k = a_shape
    _, n = b_shape
    kn, args = call["kernel"], call["args"]
    if kn in ("csr_csr", "csr_nd", "csr_nd_sparse", "coo_coo"):
        return "plain" if args[0] == [m, n] else ("swapT" if args[0] == [n, m] else f"?{args[0]}")
    if kn in ("csc_nd", "csc_nd_sparse"):
        return "plain" if args[0] == [m, k] and args[1] == [k, n] else ("swapT" if args[0] == [n, k] and args[1] == [k, m] else f"?{args[:2]}")
    if kn in ("coo_nd", "coo_nd_sparse"):
        return "rhsT" if args[2] == [n, k] and args[3] == [m, n] else f"?{args[2:]}"
    if kn in ("nd_coo", "nd_coo_sparse"):
        return "plain" if args[0] == [m, k] and args[3] == [m, n] else f"?{args}"
    return "?"


def as_public_call(case):
    """the public call that hands `_dot` the operands of a dispatch case"""
    return {"op": "tensordot", "a": kind_spec(np.array(case["a"]), case["ka"]), "b": kind_spec(np.array(case["b"]), case["kb"]),
            "axes": [[1], [0]], "rt": case["rt"]}


def leg_a_dispatch(ctx, rng, pool, active, reps):
    jobs, metas = [], []
    dimsets = [(2, 3, 4), (4, 3, 2), (3, 4, 2), (2, 4, 3)]
    for rep in range(reps):
        m, k, n = dimsets[rep % len(dimsets)]
        for ka, kb, rt in itertools.product(KINDS, KINDS, RTS):
            a = small_dense(rng, (m, k), density=0.9)
            b = small_dense(rng, (k, n), density=0.9)
            a[0, 0], b[0, 0] = 1, 1
            # keep clear of the known findings: this family is about the decision, not the kernels
            if ((a @ b == 0) & (((a != 0).astype(int) @ (b != 0).astype(int)) != 0)).any():
                a, b = np.abs(a), np.abs(b)
            job = {"kind": "dispatch", "a": kind_spec(a, ka), "b": kind_spec(b, kb), "rt": rt, "_affinity": f"d:{ka}:{kb}"}
            jobs.append(job)
            metas.append((ka, kb, rt, a, b))
    gots = yield jobs
    reqs, keep = [], []
    for (ka, kb, rt, a, b), got in zip(metas, gots):
        case = {"op": "_dot", "ka": ka, "kb": kb, "rt": rt, "a": a.tolist(), "b": b.tolist()}
        ctx.case(f"A:dispatch:{ka}:{kb}:{rt}", case)
        if "ok" not in got:
            ctx.fail("A", "dispatch", case, f"_dot did not return a value: {json.dumps(got)[:160]}")
            continue
        g = got["ok"]
        cd = (g.get("a_default_ca") or [0])[0]
        reqs.append(["c04_dispatch", ka, kb, cd, False, rt])
        keep.append((case, g, a, b))
    outs = ctx.driver.run(reqs)
    for (case, g, a, b), out in zip(keep, outs):
        if "ok" not in out:
            ctx.fail("A", "dispatch", case, f"model answers {out}, implementation returned {g['type']}")
            continue
        p = out["ok"]
        calls = g["calls"]
        if p["kernel"] == "np_dot":
            if calls:
                ctx.fail("A", "dispatch", case, f"model: numpy.dot; implementation called {calls}")
        elif len(calls) != 1 or calls[0]["kernel"] != p["kernel"]:
            ctx.fail("A", "dispatch", case, f"model kernel {p['kernel']}, implementation called {[c['kernel'] for c in calls]}")
            continue
        else:
            o = observed_orientation(calls[0], a.shape, b.shape, b)
            want_o = p["orient"]
            if calls[0]["kernel"] == "nd_coo_sparse":
                want_o = "plain"  # shapes cannot tell; the transposed coordinates are checked through the values below
            if o != want_o:
                ctx.fail("A", "dispatch", case, f"model orientation {p['orient']}, implementation {o} (kernel {p['kernel']}, args {calls[0]['args']})")
            made = (g.get("made") or [None])[0]
            if p["ca"] is not None:
                if not made or made["cls"] != "GCXS" or made["ca"] != [p["ca"]] or made["prune"] != p["prune"]:
                    ctx.fail("A", "dispatch", case, f"model builds GCXS(compressed_axes=({p['ca']},), prune={p['prune']}), implementation {made}")
            elif p["kernel"] in ("coo_coo", "coo_nd_sparse", "nd_coo_sparse"):
                if not made or made["cls"] != "COO" or made["prune"] != p["prune"]:
                    ctx.fail("A", "dispatch", case, f"model builds COO(prune={p['prune']}), implementation {made}")
        kinds = {"none": None, "todense": "ndarray", "tocoo": "COO", "asgcxs": "GCXS"}
        base = {"csr_csr": "GCXS", "csr_nd_sparse": "GCXS", "csc_nd_sparse": "GCXS", "coo_coo": "COO", "coo_nd_sparse": "COO",
                "nd_coo_sparse": "COO"}.get(p["kernel"], "ndarray")
        want_t = kinds[p["post"]] or base
        if g["type"] != want_t:
            ctx.fail("A", "dispatch", case, f"model result type {want_t}, implementation {g['type']}")
        ref = a @ b
        if g["shape"] != list(ref.shape) or not np.array_equal(np.array(g["dense"]).reshape(ref.shape), ref):
            ctx.fail("A", "dispatch", case, f"_dot values {g['dense']} numpy {ref.tolist()}")
    ctx.count("leg_a_dispatch_calls", len(jobs))


def leg_b_spec(ctx, rng, n):
    """the Lean specification against NumPy (spec validation), and CSR.get against scipy's densification"""
    import scipy.sparse as sp

    reqs, wants = [], []
    for _ in range(n):
        m, k, p = mk_dims(rng)
        a, b = small_dense(rng, (m, k)), small_dense(rng, (k, p))
        reqs.append(["c04_matmul_spec", [m, k, p], a.tolist(), b.tolist()])
        wants.append((a @ b).tolist())
        A = csr_from_dense(rng, a, shuffle=True, dups=True)
        reqs.append(["c04_csr_get", A, [m, k]])
        wants.append(sp.csr_matrix((np.array(A["data"], dtype=np.int64), np.array(A["indices"], dtype=np.int64), np.array(A["indptr"], dtype=np.int64)),
                                   shape=(m, k)).toarray().tolist())
    outs = ctx.driver.run(reqs)
    for req, want, out in zip(reqs, wants, outs):
        ctx.case(f"B:{req[0]}", req[1:], nontrivial=True)
        got = out.get("ok")
        if np.array(got, dtype=np.int64).reshape(np.array(want, dtype=np.int64).shape).tolist() != want if np.size(want) else (np.size(got) != 0):
            ctx.fail("B", req[0], req[1:], f"spec {got} numpy/scipy {want}")


def leg_a_tensordot_axes(ctx, rng, n):
    reqs, wants, cases = [], [], []
    for _ in range(n):
        sa, sb, xa, xb = td_shapes(rng)
        a, b = np.zeros(sa), np.zeros(sb)
        try:
            want = {"shape": list(np.tensordot(a, b, axes=(xa, xb)).shape)}
        except ValueError:
            want = None
        xan, xbn = [x % len(sa) for x in xa], [x % len(sb) for x in xb]
        reqs.append(["c04_tensordot_axes", list(sa), list(sb), xan, xbn])
        wants.append(want)
        cases.append({"sa": sa, "sb": sb, "axes": [xa, xb]})
    outs = ctx.driver.run(reqs)
    for case, want, out, req in zip(cases, wants, outs, reqs):
        ctx.case("A:tensordot_axes", case)
        if want is None:
            if "err" not in out:
                ctx.fail("A", "tensordot_axes", case, f"numpy rejects, model {out}")
            continue
        if "ok" not in out:
            ctx.fail("A", "tensordot_axes", case, f"numpy shape {want['shape']}, model {out}")
            continue
        o = out["ok"]
        ok = (o["shape"] == want["shape"] and sorted(o["newaxes_a"]) == list(range(len(case["sa"]))) and sorted(o["newaxes_b"]) == list(range(len(case["sb"]))))
        if not ok:
            ctx.fail("A", "tensordot_axes", case, f"model {o}, numpy shape {want['shape']}")


# ------------------------------------------------------------------------------------------------
# leg C: public functions vs NumPy
# ------------------------------------------------------------------------------------------------

def capped(rng, shape_fn, cap=240):
    for _ in range(60):
        s = shape_fn()
        if all(int(np.prod(x, dtype=np.int64)) <= cap for x in s[:2]):
            return s
    return None


RANKS = [1, 2, 2, 2, 3, 4]


def dot_shapes(rng):
    ra, rb = int(rng.choice(RANKS)), int(rng.choice(RANKS))
    k = int(rng.choice(EXT))
    sa = tuple(int(rng.choice(EXT)) for _ in range(ra - 1)) + (k,)
    sb = (k,) if rb == 1 else tuple(int(rng.choice(EXT)) for _ in range(rb - 2)) + (k, int(rng.choice(EXT)))
    return sa, sb


def matmul_shapes(rng):
    ra, rb = int(rng.choice(RANKS)), int(rng.choice(RANKS))
    k = int(rng.choice(EXT))
    nb = max(ra, rb) - 2
    batch = tuple(int(rng.choice([0, 1, 2, 2, 3])) for _ in range(max(nb, 0)))

    def part(r):
        if r <= 2:
            return ()
        t = batch[len(batch) - (r - 2):]
        return tuple(1 if (e != 1 and rng.random() < 0.3) else e for e in t)

    sa = (k,) if ra == 1 else part(ra) + (int(rng.choice(EXT)), k)
    sb = (k,) if rb == 1 else part(rb) + (k, int(rng.choice(EXT)))
    r = rng.random()
    if r < 0.12 and ra >= 2:      # `a` squeezable to a vector: every axis but the last has length 1
        sa = (1,) * (ra - 1) + (k,)
    elif r < 0.24 and rb >= 3:    # `b` squeezable to a matrix: every batch axis has length 1
        sb = (1,) * (rb - 2) + sb[-2:]
    return sa, sb


def td_shapes(rng):
    ra, rb = int(rng.choice(RANKS)), int(rng.choice(RANKS))
    nc = int(rng.integers(0, min(ra, rb, 3) + 1))
    sa = [int(rng.choice(EXT)) for _ in range(ra)]
    sb = [int(rng.choice(EXT)) for _ in range(rb)]
    xa = [int(v) for v in rng.permutation(ra)[:nc]]
    xb = [int(v) for v in rng.permutation(rb)[:nc]]
    for p, q in zip(xa, xb):
        sb[q] = sa[p]
    xa = [x - ra if rng.random() < 0.3 else x for x in xa]
    xb = [x - rb if rng.random() < 0.3 else x for x in xb]
    return tuple(sa), tuple(sb), xa, xb


def einsum_case(rng):
    letters = "ijkl"
    sizes = {c: int(rng.choice([0, 1, 2, 2, 3, 3])) for c in letters}
    nops = int(rng.choice([1, 2, 2]))
    terms = ["".join(str(c) for c in rng.choice(list(letters[:3 + int(rng.random() < 0.3)]), size=int(rng.integers(1, 4)))) for _ in range(nops)]
    used = list(dict.fromkeys("".join(terms)))
    ell = rng.random() < 0.25
    # with an ellipsis every operand covers its own number of broadcast dims (0, 1 or 2), aligned at the right
    batch = tuple(int(v) for v in rng.choice([1, 2, 3], size=2)) if ell else ()
    counts = [int(rng.integers(0, 3)) if ell else 0 for _ in terms]
    pre = ["..." if ell else "" for _ in terms]
    if rng.random() < 0.3:
        sub = ",".join(p + t for p, t in zip(pre, terms))
    else:
        out = [c for c in used if rng.random() < 0.6]
        out = [out[i] for i in rng.permutation(len(out))]
        sub = ",".join(p + t for p, t in zip(pre, terms)) + "->" + ("..." if ell and (any(counts) or rng.random() < 0.8) else "") + "".join(out)
    shapes = []
    for t, c in zip(terms, counts):
        lead = tuple(1 if (e != 1 and rng.random() < 0.2) else e for e in batch[len(batch) - c:]) if c else ()
        shapes.append(lead + tuple(sizes[ch] for ch in t))
    return sub, shapes


DTYPES = ["int64"]  # the thorough tier adds float64 / int32 / complex128 (values stay small integers, so arithmetic is exact)


def make_operand(rng, shape, allowed, dt=None):
    dt = dt or _CASE_DT or str(rng.choice(DTYPES))
    d = small_dense(rng, shape).astype(dt)
    f, ca = rand_fmt(rng, len(shape), allowed)
    return d, spec_of(d, f, ca, dtype=dt)


ALL_FMTS = ["coo", "coo", "gcxs", "gcxs", "scipy_csr", "scipy_csc", "scipy_coo", "nd", "nd"]
NO_SCIPY = ["coo", "coo", "gcxs", "gcxs", "nd"]


def gen_case(rng, op):
    """-> (case dict for the worker, numpy thunk) or None"""
    global _CASE_DT
    # both operands share a dtype most of the time (each dtype pair compiles its own kernels)
    _CASE_DT = str(rng.choice(DTYPES)) if rng.random() < 0.85 else None
    return _gen_case(rng, op)


_CASE_DT = None


def _gen_case(rng, op):
    if op in ("dot", "matmul", "@", "method_dot"):
        s = capped(rng, (lambda: dot_shapes(rng)) if op in ("dot", "method_dot") else (lambda: matmul_shapes(rng)))
        if s is None:
            return None
        sa, sb = s
        if rng.random() < 0.04:  # error stream: mismatching contraction extents
            sb = sb[:-1] + (sb[-1] + 1,) if len(sb) == 1 else sb[:-2] + (sb[-2] + 1, sb[-1])
        left = NO_SCIPY if op in ("@", "method_dot") else ALL_FMTS
        da, a = make_operand(rng, sa, left)
        db, b = make_operand(rng, sb, ALL_FMTS)
        if a["fmt"] == "nd" and b["fmt"] == "nd":
            b = spec_of(db, "coo", dtype=str(db.dtype))
        if op == "@" and a["fmt"] == "nd" and b["fmt"].startswith("scipy"):
            b = spec_of(db, "gcxs", gen.compressed_axes_choices(db.ndim)[0] if db.ndim >= 2 else None, dtype=str(db.dtype))
        if op == "method_dot" and a["fmt"] == "nd":
            a = spec_of(da, "coo", dtype=str(da.dtype))
        ref = (lambda: np.dot(da, db)) if op in ("dot", "method_dot") else (lambda: np.matmul(da, db))
        return {"op": op, "a": a, "b": b}, ref
    if op == "tensordot":
        for _ in range(60):
            sa, sb, xa, xb = td_shapes(rng)
            if np.prod(sa, dtype=np.int64) <= 240 and np.prod(sb, dtype=np.int64) <= 240:
                break
        else:
            return None
        da, a = make_operand(rng, sa, ALL_FMTS)
        db, b = make_operand(rng, sb, ALL_FMTS)
        if a["fmt"] == "nd" and b["fmt"] == "nd":
            a = spec_of(da, "coo", dtype=str(da.dtype))
        nc = len(xa)
        if rng.random() < 0.25 and nc <= min(len(sa), len(sb)) and all(sa[len(sa) - nc + i] == sb[i] for i in range(nc)):
            axes = nc
        elif nc == 1 and rng.random() < 0.3:
            axes = [xa[0], xb[0]]
        else:
            axes = [xa, xb]
        rt = str(rng.choice(RTS))
        npaxes = axes if isinstance(axes, int) else (axes[0], axes[1])
        return {"op": "tensordot", "a": a, "b": b, "axes": axes, "rt": rt}, (lambda: np.tensordot(da, db, axes=npaxes))
    if op == "einsum":
        sub, shapes = einsum_case(rng)
        if any(np.prod(s, dtype=np.int64) > 200 for s in shapes):
            return None
        ops = [make_operand(rng, s, NO_SCIPY) for s in shapes]
        if all(o[1]["fmt"] == "nd" for o in ops):
            ops[0] = (ops[0][0], spec_of(ops[0][0], "coo", dtype=str(ops[0][0].dtype)))
        if len(ops) == 1:
            return {"op": "einsum1", "subscripts": sub, "a": ops[0][1], "b": spec_of(np.zeros(()), "nd")}, (lambda: np.einsum(sub, ops[0][0]))
        return {"op": "einsum", "subscripts": sub, "a": ops[0][1], "b": ops[1][1]}, (lambda: np.einsum(sub, ops[0][0], ops[1][0]))
    if op == "vecdot":
        r = int(rng.integers(1, 5))
        s = gen.shape(rng, r, r, extents=EXT, max_size=200)
        s2 = s if rng.random() < 0.7 else tuple(1 if (i != len(s) - 1 and rng.random() < 0.5) else e for i, e in enumerate(s))
        axis = int(rng.integers(-r, r))
        if s2 != s:
            axis = -1
        da, a = make_operand(rng, s, NO_SCIPY)
        db, b = make_operand(rng, s2, NO_SCIPY)
        if a["fmt"] == "nd" and b["fmt"] == "nd":
            a = spec_of(da, "coo", dtype=str(da.dtype))
        return {"op": "vecdot", "a": a, "b": b, "axis": axis}, (lambda: np.vecdot(da, db, axis=axis))
    if op == "kron":
        sa = gen.shape(rng, 1, 3, extents=EXT, max_size=40)
        sb = gen.shape(rng, 1, 3, extents=EXT, max_size=40)
        da, a = make_operand(rng, sa, ALL_FMTS)
        db, b = make_operand(rng, sb, ALL_FMTS)
        if a["fmt"] == "nd" and b["fmt"] == "nd":
            b = spec_of(db, "coo", dtype=str(db.dtype))
        return {"op": "kron", "a": a, "b": b}, (lambda: np.kron(da, db))
    if op == "outer":
        sa = gen.shape(rng, 1, 3, extents=EXT, max_size=40)
        sb = gen.shape(rng, 1, 3, extents=EXT, max_size=40)
        da, a = make_operand(rng, sa, NO_SCIPY)
        db, b = make_operand(rng, sb, NO_SCIPY)
        if a["fmt"] == "nd" and b["fmt"] == "nd":
            a = spec_of(da, "gcxs", gen.compressed_axes_choices(da.ndim)[0] if da.ndim >= 2 else None, dtype=str(da.dtype))
        return {"op": "outer", "a": a, "b": b}, (lambda: np.outer(da, db))
    raise ValueError(op)


def judge(case, res, ref_thunk):
    """None when the call agrees with NumPy, else a description of the disagreement"""
    try:
        ref, ref_err = ref_thunk(), None
    except Exception as e:  # noqa: BLE001
        ref, ref_err = None, e
    if "hang" in res:
        return f"hang: no answer within {res['hang']}s (numpy returns {'an error' if ref_err else 'shape ' + str(np.shape(ref))})"
    if "crash" in res:
        return f"crash: worker process died with status {res['crash']}"
    if "raised" in res:
        if ref_err is not None and res["cls"] in ("value", "index", "type"):
            return None
        if ref_err is not None:
            return f"numpy raises {type(ref_err).__name__}; call raised {res['raised']}: {res['msg'][:120]}"
        return f"raised {res['raised']}: {res['msg'][:140]} (numpy returns shape {np.shape(ref)})"
    g = res["ok"]
    if ref_err is not None:
        return f"numpy raises {type(ref_err).__name__} but the call returned"
    ref = np.asarray(ref)
    if g.get("canonical"):
        return f"result not canonical: {g['canonical']}"
    if g.get("nofill") and case.get("_kernels"):
        # `_dot` promises prune=True for every kernel that writes sums untested (dot_dispatch_prunes);
        # stored zeros from other routes (einsum's duplicate summation) are C06's subject, not C04's
        return f"result stores explicit zeros ({g['type']}, nnz {g.get('nnz')})"
    rt = case.get("rt", "none")
    sparse_operand = case["a"]["fmt"] != "nd" or case["b"]["fmt"] != "nd"
    if rt != "none" and sparse_operand and ref.ndim > 0 and case["a"]["shape"] != [] and case["b"]["shape"] != []:
        want = {"coo": "COO", "gcxs": "GCXS", "nd": "ndarray"}[rt]
        if g["type"] != want:
            return f"return_type {want} requested, result is {g['type']}"
    if g["type"] not in ("COO", "GCXS", "ndarray", "scalar"):
        return f"result is a {g['type']}"
    if g["shape"] != list(ref.shape):
        return f"shape {tuple(g['shape'])}, numpy {ref.shape}"
    if g["dtype"] != str(ref.dtype):
        return f"dtype {g['dtype']}, numpy {ref.dtype}"
    d = np.array(g["dense"], dtype=ref.dtype).reshape(ref.shape)
    if g.get("imag_max"):
        return f"values differ: imaginary part up to {g['imag_max']} for real operands"
    if not np.array_equal(d, ref, equal_nan=ref.dtype.kind in "fc"):
        return f"values differ: got {d.tolist()!r:.160} numpy {ref.tolist()!r:.160}"
    return None


OPS_C = ["dot", "dot", "matmul", "matmul", "@", "method_dot", "tensordot", "tensordot", "tensordot", "einsum", "einsum", "vecdot", "kron", "outer"]

WITNESSES = {
    "F-coo-nd-zero-cols-hang": {"op": "dot", "a": spec_of(np.eye(3, dtype=np.int64), "coo"), "b": spec_of(np.zeros((3, 0), dtype=np.int64), "nd")},
    "F-csr-csr-zero-cols": {"op": "dot", "a": spec_of(np.eye(3, dtype=np.int64), "gcxs", [0]), "b": spec_of(np.zeros((3, 0), dtype=np.int64), "gcxs", [0])},
    "F-csc-nd-sparse-cancel": {"op": "tensordot", "a": spec_of(np.array([[1, -1, 2]]), "gcxs", [1]),
                               "b": spec_of(np.array([[1, 0], [1, 0], [0, 1]]), "nd"), "axes": [[1], [0]], "rt": "gcxs"},
    "F-csc-nd-sparse-unsorted": {"op": "tensordot", "a": spec_of(np.array([[1, 0], [2, 0], [0, 3]]), "gcxs", [1]),
                                 "b": spec_of(np.array([[1, 1], [0, 1]]), "nd"), "axes": [[1], [0]], "rt": "gcxs"},
    "F-csr-csr-unsorted": {"op": "dot", "a": spec_of(np.array([[1, 1]]), "gcxs", [0]), "b": spec_of(np.array([[3, 0, 4, 0], [0, 5, -4, 0]]), "gcxs", [0])},
    "F-matmul-1d-left": {"op": "matmul", "a": spec_of(np.array([1, 2, 3]), "coo"), "b": spec_of(np.arange(24).reshape(1, 2, 3, 4) % 5 - 2, "nd")},
    "F-matmul-empty-batch": {"op": "matmul", "a": spec_of(np.zeros((0, 2, 1), dtype=np.int64), "coo"), "b": spec_of(np.zeros((0, 1, 3), dtype=np.int64), "coo")},
    "F-dot-1d-length-mismatch": {"op": "dot", "a": spec_of(np.array([2]), "coo"), "b": spec_of(np.array([1, 3]), "coo")},
    "F-int32-sum-upcast": {"op": "dot", "a": spec_of(np.array([1, 2]), "coo", dtype="int32"), "b": spec_of(np.array([3, 4]), "coo", dtype="int32")},
    "F-csc-nd-sparse-complex": {"op": "tensordot", "a": spec_of(np.array([[1, 0], [2, 0], [0, 3]]), "gcxs", [1], dtype="complex128"),
                                "b": spec_of(np.array([[1, 1], [0, 1]]), "nd", dtype="complex128"), "axes": [[1], [0]], "rt": "coo"},
    "F-complex-negzero-mixed": {"op": "outer", "a": spec_of(np.array([1, 0, 2]), "coo", dtype="complex128"),
                                "b": spec_of(np.array([1, -2, 3]), "nd", dtype="complex128")},
    "F-einsum-broadcast-one": {"op": "einsum", "subscripts": "i,i->i", "a": spec_of(np.array([2]), "coo"), "b": spec_of(np.array([1, 2, 3]), "coo")},
    "F-tensordot-empty-return-type": {"op": "tensordot", "a": spec_of(np.zeros((2, 0), dtype=np.int64), "coo"), "b": spec_of(np.zeros((0, 3), dtype=np.int64), "coo"),
                                      "axes": [[1], [0]], "rt": "nd"},
}


def ref_of(case):
    a = np.array(case["a"]["dense"], dtype=case["a"].get("dtype", "int64")).reshape(case["a"]["shape"])
    b = np.array(case["b"]["dense"], dtype=case["b"].get("dtype", "int64")).reshape(case["b"]["shape"])
    op = case["op"]
    if op in ("dot", "method_dot"):
        return lambda: np.dot(a, b)
    if op in ("matmul", "@"):
        return lambda: np.matmul(a, b)
    if op == "tensordot":
        ax = case["axes"]
        return lambda: np.tensordot(a, b, axes=ax if isinstance(ax, int) else (ax[0], ax[1]))
    if op == "einsum":
        return lambda: np.einsum(case["subscripts"], a, b)
    if op == "einsum1":
        return lambda: np.einsum(case["subscripts"], a)
    if op == "vecdot":
        return lambda: np.vecdot(a, b, axis=case.get("axis", -1))
    if op == "kron":
        return lambda: np.kron(a, b)
    if op == "outer":
        return lambda: np.outer(a, b)
    raise ValueError(op)


def job_of(case, active):
    j = dict(case)
    j["kind"] = "product"
    j["_affinity"] = (f"{case['op'] if case['op'] in ('einsum', 'einsum1', 'vecdot', 'kron', 'outer') else 'prod'}:{findings_c04.kind(case['a'])}:"
                      f"{findings_c04.kind(case['b'])}:{case['a'].get('dtype')}:{case['b'].get('dtype')}")
    if active.get("F-coo-nd-zero-cols-hang", True) and findings_c04.in_hang_region(case):
        j["_fresh"], j["_deadline"] = True, HANG_DEADLINE
    return j


def replay_witnesses(ctx, pool):
    """decide, under the watchdog, which known defects are present in the tree being checked.
    The deadline for "does not return" is calibrated first: a fresh process runs a returning call through
    the same kernel as the non-returning witness (import + compilation + call), and the deadline is a
    multiple of that time, so that a loaded machine does not turn a slow call into a hang."""
    global HANG_DEADLINE
    ids = [f for f in WITNESSES if f != "F-coo-nd-zero-cols-hang"]
    calib = {"kind": "product", "op": "dot", "a": spec_of(np.eye(3, dtype=np.int64), "coo"), "b": spec_of(np.ones((3, 2), dtype=np.int64), "nd"),
             "_fresh": True, "_deadline": 120.0}
    jobs = [calib]
    for fid in ids:
        jobs.append(dict(WITNESSES[fid], kind="product", _fresh=True, _deadline=120.0))
    res = pool.run(jobs)
    t_cal = res[0].get("_wall", 120.0)
    HANG_DEADLINE = max(15.0, 5.0 * t_cal + 5.0)
    pool.deadline = max(60.0, 20.0 * t_cal)
    ctx.notes["watchdog_calibration"] = {"returning_call_s": t_cal, "hang_deadline_s": round(HANG_DEADLINE, 1)}
    hang = pool.run([dict(WITNESSES["F-coo-nd-zero-cols-hang"], kind="product", _fresh=True, _deadline=HANG_DEADLINE)])
    active = {}
    for fid, r in zip(ids + ["F-coo-nd-zero-cols-hang"], res[1:] + hang):
        case = dict(WITNESSES[fid])
        payload = r.get("ok") or (r if "raised" in r else {})
        case["_kernels"] = [c["kernel"] for c in payload.get("calls", [])]
        msg = judge(case, r, ref_of(case))
        active[fid] = msg is not None
        ctx.notes.setdefault("witness_replay", {})[fid] = msg or "passes (defect not present)"
    return active


GRID_KINDS = [("coo", None), ("gcxs", [0]), ("gcxs", [1]), ("scipy_csr", None), ("scipy_csc", None), ("nd", None)]


def grid_cases(rng, reps):
    """every operand-kind pair x every return type on 2-d operands (each `_dot` branch is reached by
    public calls in every run), through tensordot, dot and matmul"""
    out = []
    for _ in range(reps):
        for (fa, ca), (fb, cb) in itertools.product(GRID_KINDS, GRID_KINDS):
            if fa == "nd" and fb == "nd":
                continue
            for rt in RTS + ["dot", "matmul"]:
                m, k, n = (int(v) for v in rng.integers(1, 5, size=3))
                a = small_dense(rng, (m, k), density=float(rng.choice([0.5, 0.9])))
                b = small_dense(rng, (k, n), density=float(rng.choice([0.5, 0.9])))
                if rt in RTS:
                    out.append({"op": "tensordot", "a": spec_of(a, fa, ca), "b": spec_of(b, fb, cb), "axes": [[1], [0]], "rt": rt})
                else:
                    out.append({"op": rt, "a": spec_of(a, fa, ca), "b": spec_of(b, fb, cb)})
    return out


RANK_FMTS = ["coo", "gcxs", "nd"]


def matmul_rank_grid(rng):
    """matmul / @ for every pair of operand ranks 1..4 in three shapes each: generic with broadcasting batch
    axes (some of length 1), `a` with all axes but the last of length 1 (squeezable to a vector), `b` with
    all batch axes of length 1 (squeezable to a matrix) - so every shortcut of `matmul` is entered and
    left from both sides of its rank guard in every run.  Extents are pairwise distinct where possible so
    that a misplaced axis changes the shape."""
    out = []
    for ra, rb in itertools.product(range(1, 5), repeat=2):
        for variant in ("generic", "a_ones", "b_ones") * (2 if ra != rb else 1):
            if variant == "a_ones" and ra < 2:
                continue
            if variant == "b_ones" and rb < 3:
                continue
            k, m, n = 5, int(rng.choice([2, 4])), int(rng.choice([3, 6]))
            nb = max(ra, rb) - 2
            batch = tuple(int(v) for v in rng.permutation([2, 3, 4])[:max(nb, 0)])

            def part(r, ones):
                if r <= 2:
                    return ()
                t = batch[len(batch) - (r - 2):]
                return tuple(1 if (ones or rng.random() < 0.35) else e for e in t)

            sa = (k,) if ra == 1 else part(ra, variant == "a_ones") + ((1 if variant == "a_ones" else m), k)
            sb = (k,) if rb == 1 else part(rb, variant == "b_ones") + (k, n)
            fa, fb = str(rng.choice(RANK_FMTS)), str(rng.choice(RANK_FMTS))
            if fa == "nd" and fb == "nd":
                fa = "coo"
            da, db = small_dense(rng, sa, density=0.8), small_dense(rng, sb, density=0.8)

            def sp(d, f):
                ca = None
                if f == "gcxs" and d.ndim >= 2:
                    ch = gen.compressed_axes_choices(d.ndim)
                    ca = ch[int(rng.integers(len(ch)))]
                return spec_of(d, f, ca)

            out.append({"op": "matmul" if rng.random() < 0.7 else "@", "a": sp(da, fa), "b": sp(db, fb)})
        # a batch axis of length 0 in one operand against length 1 (or absent) in the other: the broadcast batch extent is 0
        if max(ra, rb) >= 3 and min(ra, rb) >= 2:
            for zero_in in ("a", "b"):
                k, m, n = 4, 2, 5
                nba, nbb = max(ra - 2, 0), max(rb - 2, 0)
                ba = tuple(int(v) for v in rng.choice([1, 2, 3], size=nba))
                bb = tuple((1 if rng.random() < 0.5 else e) for e in ba[len(ba) - nbb:]) if nbb <= nba else tuple(int(v) for v in rng.choice([1, 2], size=nbb - nba)) + tuple(ba)
                ba, bb = list(ba), list(bb)
                # put the 0 on the last batch axis of one side and a 1 on the other side's matching axis (if it has one)
                if zero_in == "a" and ba:
                    ba[-1] = 0
                    if bb:
                        bb[-1] = 1
                elif zero_in == "b" and bb:
                    bb[-1] = 0
                    if ba:
                        ba[-1] = 1
                else:
                    continue
                sa, sb = tuple(ba) + (m, k), tuple(bb) + (k, n)
                fa, fb = str(rng.choice(RANK_FMTS)), str(rng.choice(RANK_FMTS))
                if fa == "nd" and fb == "nd":
                    fa = "coo"
                da, db = small_dense(rng, sa, density=0.8), small_dense(rng, sb, density=0.8)
                out.append({"op": "matmul" if rng.random() < 0.7 else "@", "a": spec_of(da, fa, gen.compressed_axes_choices(da.ndim)[0] if fa == "gcxs" and da.ndim >= 2 else None),
                            "b": spec_of(db, fb, gen.compressed_axes_choices(db.ndim)[0] if fb == "gcxs" and db.ndim >= 2 else None)})
    return out


ELL_CORES = [("i", "i"), ("ij", "jk"), ("i", "j"), ("ij", "j"), ("ii", "i"), ("ij", "ij")]


def einsum_ellipsis_grid(rng):
    """einsum with `...` where the operands cover DIFFERENT numbers of broadcast dims: every pair of counts
    in {0,1,2}^2, once with unequal and once with coinciding batch extents, with implicit output, explicit
    output carrying `...`, and explicit output without it; plus one-operand cases."""
    out = []
    for (e1, e2), same in itertools.product(itertools.product(range(3), repeat=2), (False, True)):
        batch = (3, 3) if same else (2, 3)
        ta, tb = ELL_CORES[int(rng.integers(len(ELL_CORES)))]
        sizes = {"i": 4, "j": 2, "k": 3}
        sa = batch[2 - e1:] + tuple(sizes[c] for c in ta)
        sb = batch[2 - e2:] + tuple(sizes[c] for c in tb)
        keep = [c for c in dict.fromkeys(ta + tb) if rng.random() < 0.5]
        style = int(rng.integers(3)) if e1 == e2 == 0 else int(rng.integers(2))  # NumPy rejects an output without `...` over broadcast dims
        sub = f"...{ta},...{tb}" + ("" if style == 0 else "->..." + "".join(keep) if style == 1 else "->" + "".join(keep))
        fa, fb = str(rng.choice(RANK_FMTS)), str(rng.choice(RANK_FMTS))
        if fa == "nd" and fb == "nd":
            fb = "coo"
        da, db = small_dense(rng, sa, density=0.8), small_dense(rng, sb, density=0.8)
        out.append({"op": "einsum", "subscripts": sub, "a": spec_of(da, fa, gen.compressed_axes_choices(da.ndim)[0] if fa == "gcxs" and da.ndim >= 2 else None),
                    "b": spec_of(db, fb, gen.compressed_axes_choices(db.ndim)[0] if fb == "gcxs" and db.ndim >= 2 else None)})
    for e in range(3):
        sa = (2, 3)[2 - e:] + (3, 3)
        da = small_dense(rng, sa, density=0.8)
        for sub in ("...ii->...i", "...ij->...ji", "...ij"):
            out.append({"op": "einsum1", "subscripts": sub, "a": spec_of(da, "coo"), "b": spec_of(np.zeros(()), "nd")})
    return out


def leg_c(ctx, rng, pool, active, n, extra=(), corpus=True):
    cases, refs = [], []
    hang_cap = 2 if ctx.quick else 8
    hang_n = 0
    # corpus first: the witnesses, inputs on which a correspondence broke in this run, the kind grid
    for fid, w in (WITNESSES.items() if corpus else ()):
        cases.append(dict(w))
        refs.append(ref_of(w))
        if findings_c04.in_hang_region(w):
            hang_n += 1
    for c in list(extra) + ((grid_cases(rng, 1 if ctx.quick else 4) + matmul_rank_grid(rng) + einsum_ellipsis_grid(rng)) if corpus else []):
        cases.append(c)
        refs.append(ref_of(c))
    k = 0
    n += len(cases)
    while len(cases) < n and k < 20 * n:
        k += 1
        op = OPS_C[int(rng.integers(len(OPS_C)))]
        c = gen_case(rng, op)
        if c is None:
            continue
        case, ref = c
        if findings_c04.in_hang_region(case):
            if hang_n >= hang_cap:
                continue  # each costs a watchdog deadline while the defect is present
            hang_n += 1
        cases.append(case)
        refs.append(ref)
    res = yield [job_of(c, active) for c in cases]
    for case, ref, r in zip(cases, refs, res):
        fam = f"C:{case['op']}:{case['a']['fmt']}:{case['b']['fmt']}" + (f":{case['rt']}" if "rt" in case else "")
        nontrivial = bool(np.any(np.array(case["a"]["dense"])) and np.any(np.array(case["b"]["dense"])))
        payload = r.get("ok") or (r if "raised" in r else {})
        case["_kernels"] = [c["kernel"] for c in payload.get("calls", [])]
        ctx.case(fam, case, nontrivial=nontrivial)
        for kn in case["_kernels"]:
            ctx.count(f"kernel_reached:{kn}")
        msg = judge(case, r, ref)
        if msg:
            ctx.fail("C", case["op"], case, msg, finding=findings.classify(PID, case["op"], case, msg))
    ctx.count("leg_c_calls", len(cases))
    ctx.notes["hang_region_cases"] = ctx.notes.get("hang_region_cases", 0) + hang_n


def leg_c_complex(ctx, rng, n):
    """products of operands with genuinely COMPLEX values (non-zero imaginary parts) and MIXED element dtypes (complex x real, real x
    complex, float x int, narrow ints): conjugation in vecdot, accumulator dtypes, promotion.  In-process (no zero extents here, so the
    non-returning region of the watchdogged legs is not reachable); values are small Gaussian integers, exact in every dtype used."""
    import sparse

    pairs = [("complex128", "complex128"), ("complex128", "float64"), ("float64", "complex128"), ("complex64", "int64"), ("int64", "complex128"),
             ("complex64", "complex128"), ("float32", "int64"), ("int8", "float64"), ("uint8", "int64"), ("bool", "complex128")]

    def arr(shape, dt):
        v = rng.integers(-3, 4, size=shape)
        mask = rng.random(size=shape) < 0.6
        if np.dtype(dt).kind == "c":
            v = v + 1j * rng.integers(-3, 4, size=shape)
        elif np.dtype(dt).kind in "ub":
            v = np.abs(v)
        return np.where(mask, v, 0).astype(dt)

    def mk(d, fmt):
        if fmt == "nd":
            return d
        if fmt == "coo":
            return sparse.COO.from_numpy(d)
        ch = gen.compressed_axes_choices(d.ndim)
        ca = ch[int(rng.integers(len(ch)))]
        return sparse.GCXS.from_numpy(d, compressed_axes=ca) if ca is not None else sparse.GCXS.from_numpy(d)

    for k in range(n):
        ta, tb = pairs[int(rng.integers(len(pairs)))]
        op = str(rng.choice(["vecdot", "vecdot", "dot", "matmul", "tensordot", "einsum", "kron", "outer"]))
        m, kk, nn = (int(v) for v in rng.integers(1, 5, size=3))
        if op == "vecdot":
            shp = (m, kk) if rng.random() < 0.6 else (kk,)
            da, db = arr(shp, ta), arr(shp, tb)
            axis = int(rng.integers(-len(shp), len(shp)))
            f = lambda A, B, axis=axis: sparse.vecdot(A, B, axis=axis)  # noqa: E731
            r = lambda axis=axis: np.vecdot(da, db, axis=axis)  # noqa: E731
        elif op in ("dot", "matmul"):
            da, db = arr((m, kk), ta), arr((kk, nn), tb)
            f = (lambda A, B: sparse.dot(A, B)) if op == "dot" else (lambda A, B: sparse.matmul(A, B))  # noqa: E731
            r = (lambda: np.dot(da, db)) if op == "dot" else (lambda: np.matmul(da, db))  # noqa: E731
        elif op == "tensordot":
            da, db = arr((m, kk, 2), ta), arr((2, kk, nn), tb)
            f = lambda A, B: sparse.tensordot(A, B, axes=([1, 2], [1, 0]))  # noqa: E731
            r = lambda: np.tensordot(da, db, axes=([1, 2], [1, 0]))  # noqa: E731
        elif op == "einsum":
            da, db = arr((m, kk), ta), arr((kk, nn), tb)
            sub = str(rng.choice(["ij,jk->ik", "ij,jk->ki", "ij,jk->i", "ij,jk->"]))
            f = lambda A, B, sub=sub: sparse.einsum(sub, A, B)  # noqa: E731
            r = lambda sub=sub: np.einsum(sub, da, db)  # noqa: E731
        elif op == "kron":
            da, db = arr((m, 2), ta), arr((2, nn), tb)
            f, r = (lambda A, B: sparse.kron(A, B)), (lambda: np.kron(da, db))
        else:
            da, db = arr((m,), ta), arr((nn,), tb)
            f, r = (lambda A, B: sparse.outer(A, B)), (lambda: np.outer(da, db))
        fa, fb = str(rng.choice(["coo", "gcxs", "nd"])), str(rng.choice(["coo", "gcxs", "nd"]))
        if fa == "nd" and fb == "nd":
            fa = "coo"
        if op in ("einsum", "kron") and "nd" in (fa, fb) and op == "einsum":
            fa = fb = "coo" if fa == "nd" else fa
        A, B = mk(da, fa), mk(db, fb)
        case = {"op": op, "dtypes": [ta, tb], "formats": [fa, fb], "a": {"shape": list(da.shape), "real": np.real(da).tolist(), "imag": np.imag(da).tolist()},
                "b": {"shape": list(db.shape), "real": np.real(db).tolist(), "imag": np.imag(db).tolist()}}
        ctx.case(f"C:mixed-dtype:{op}", case, nontrivial=True)
        msg = oracle.compare(lambda: f(A, B), r, must_be_sparse=False, check_canonical=False)
        if msg:
            ctx.fail("C", f"mixed-dtype:{op}", case, msg, finding=findings_c04.classify(f"mixed-dtype:{op}", case, msg))


def run(ctx):
    ctx.trusted = TRUSTED
    ctx.assumptions = ["NumPy's functions are the specification", "element values are small integers (exact arithmetic); int64 only in the quick tier",
                       "a call that does not answer within its deadline (15 s for replays of the known non-returning calls, 60 s otherwise; inputs have at most 240 elements) does not return"]
    t0 = time.time()
    pool = c04_pool.Pool(n=8 if ctx.quick else 12, deadline=60.0)
    # the witnesses of the known findings are replayed (under the watchdog) while Lean builds
    box = {}
    th = threading.Thread(target=lambda: box.update(active=replay_witnesses(ctx, pool)), daemon=True)
    th.start()
    core.prove(ctx, PID, uses=[])
    rng = gen.rng_for(ctx.seed, PID)
    if not ctx.quick:
        DTYPES[:] = ["int64", "int64", "float64", "int32", "complex128"]
    phases = ctx.notes.setdefault("phase_wall_s", {})
    t = t0

    def lap(name):
        nonlocal t
        phases[name] = round(time.time() - t, 1)
        t = time.time()

    lap("prove")
    th.join()
    active = box["active"]
    lap("witness_replay")
    findings_c04.ACTIVE.update(active)
    ctx.notes["findings_active"] = active
    leg_b_spec(ctx, rng, 60 if ctx.quick else 600)
    leg_a_tensordot_axes(ctx, rng, 80 if ctx.quick else 800)
    lap("spec_and_axes")
    # all calls of the three legs go to the pool together, so that the watchdog deadlines of the
    # non-returning calls overlap with useful work
    gens = [leg_a_kernels(ctx, rng, pool, active, 10 if ctx.quick else 160, exhaustive=not ctx.quick),
            leg_a_dispatch(ctx, rng, pool, active, 1 if ctx.quick else 4),
            leg_c(ctx, rng, pool, active, 400 if ctx.quick else 8000)]
    if not ctx.quick:
        ctx.cov["exhaustive_box"] = "every kernel (jitted) on all 2x2 by 2x1 integer matrices over {-1,0,1}: 729 operand pairs each"
    parts = [next(g) for g in gens]
    lap("generate_and_model")
    import extra_ops  # reflected / in-place matmul, .dot, element dtypes outside the quick DTYPES: in a child process under a deadline, overlapping the pool's work
    extra_child = extra_ops.start_child(ctx, PID)
    res = pool.run([j for p in parts for j in p], progress=lambda d, t: core.log(f"C04 calls {d}/{t}"))
    lap("implementation_calls")
    at = 0
    for g, p in zip(gens, parts):
        try:
            g.send(res[at:at + len(p)])
        except StopIteration:
            pass
        at += len(p)
    # a broken correspondence is not yet a violation: its inputs seed a failing-input search
    seeds = [as_public_call(f["case"]) for f in ctx.failures if f["leg"] == "A" and f["family"] == "dispatch"][:40]
    if seeds:
        g = leg_c(ctx, rng, pool, active, 0, extra=seeds, corpus=False)
        jobs = next(g)
        try:
            g.send(pool.run(jobs))
        except StopIteration:
            pass
    lap("compare")
    extra_ops.finish_child(ctx, extra_child)
    leg_c_complex(ctx, rng, 150 if ctx.quick else 3000)
    lap("extra_ops")
    ctx.notes["watchdog"] = {"hangs": pool.hangs, "crashes": pool.crashes}
    if os.environ.get("C04_DUMP"):  # development aid: every non-agreement of this run
        with open(os.environ["C04_DUMP"], "w") as f:
            json.dump(ctx.failures, f, default=str)
    ctx.notes["partial"] = {"coo_nd_always_returns_partial": "ExcludedCooNdZeroCols", "csr_csr_no_error_partial": "nCol = 0"}
    ctx.notes["stated_not_proved"] = ["Statement_csc_nd_sparse_kernel_spec_partial (outside ExcludedCscCancel)", "Statement_csc_nd_kernel_spec",
                                      "Statement_coo_nd_kernel_spec", "Statement_nd_coo_kernel_spec",
                                      "matmul batch logic, einsum, kron, outer, vecdot: no Lean model (leg C only)"]
    ctx.notes["refuted_statements"] = ["Statement_coo_nd_always_returns", "Statement_csr_csr_no_error", "Statement_csr_csr_rows_sorted",
                                       "Statement_csc_nd_sparse_precount_eq_written", "Statement_csc_nd_sparse_cols_sorted"]
    ctx.cov["rule"] = ("leg A: each of the 13 kernels/pre-counts called directly (jitted and py_func) on CSR/CSC/COO triples of random 2-d integer "
                       "matrices (extents 0-4, values -2..2, optionally unsorted rows/duplicates/explicit zeros) plus the Lean witnesses, compared "
                       "with the model on data/indices(order)/indptr/allocation/error; `_dot` for all 4x4 operand kinds x 4 return types compared "
                       "on kernel, orientation, constructor promises, result type; leg B: matmulSpec vs numpy; leg C: dot/matmul/@/.dot/tensordot/"
                       "einsum/vecdot/kron/outer for COO, GCXS (any compressed axes), scipy.sparse, ndarray operands, ranks 1-4, vs NumPy on shape, "
                       "dtype, values, requested type, canonical form, no stored zeros, and returning at all; non-trivial = both operands store "
                       "something; distinct by content hash")


def replay(ctx, path):
    """re-run one recorded failing input under the watchdog"""
    obj = json.loads(open(path).read())
    f = obj.get("failure") or {}
    case = f.get("case") or {}
    pool = c04_pool.Pool(n=1, deadline=60.0)
    if f.get("leg") == "C" and "op" in case:
        case = {k: v for k, v in case.items() if not k.startswith("_")}
        r = pool.run([dict(case, kind="product", _fresh=True)])[0]
        msg = judge(case, r, ref_of(case))
    elif "kernel" in case:
        r = pool.run([{"kind": "kernel", "name": case["kernel"], "args": case["args"], "py": case.get("py_func", False), "_fresh": True}])[0]
        msg = None if "ok" in r else json.dumps(r)[:200]
        print(f"kernel answer: {json.dumps(r)[:400]}")
    else:
        print(f"nothing to replay in {path}: {obj.get('kind')}; no_longer_checks={obj.get('no_longer_checks')}")
        return 1
    if msg:
        print(f"VIOLATION property={PID} replay={path} reproduced: {msg}")
        return 1
    print(f"OK property={PID} replay={path} no longer fails")
    return 0

"""Regions of the known findings of C16 (see KNOWN_FINDINGS.txt).  classify(name, case, msg) -> finding id | None.

F-c16-gcxs-indptr-product   GCXS with two or more compressed axes whose extents multiply to more than memory: `_from_coo` allocates
                            `np.bincount(..., minlength=row_size)` and `indptr = np.empty(row_size + 1)` with row_size = prod(compressed extents)
                            (Props/C16: from_coo_counterexample_family).  Region: conversion to GCXS, len(compressed_axes) >= 2, MemoryError.
F-c16-var-densifies         var/std subtract the (non-zero) mean with keepdims and broadcast: the difference has a non-zero fill and is materialised densely.
                            Region: var/std over an axis of a 2-d+ array whose reduced size exceeds memory, MemoryError.
F-c16-gcxs-reduce-product   GCXS reduction over a compressed axis of a >=3-d array: the result is compressed along the product of the remaining axes.
                            Region: GCXS, ndim >= 3, reduced axes include the compressed axis, MemoryError.
F-c16-gcxs-getitem-product  GCXS indexing expands every slice to `np.arange` and takes the cartesian product of the column selectors (`convert_to_flat`).
                            Region: GCXS, ndim >= 3, key leaving two or more full uncompressed axes, MemoryError.
F-c16-dense-operand-view-limit  element-wise operations with a scalar / dense operand form np.broadcast_to(operand, full shape): NumPy refuses the view when
                            elements * itemsize exceeds the intp range, although the sparse array (linear index < 2**63) is addressable; nansum/nanprod/
                            nanmean go through where(isnan(x), 0, x).  Region: ValueError "array is too big", logical size * 8 >= 2**63, a reduction of the
                            nan* family or a mixed operation.

Retired (fixed in /repo, the witness is a must-pass case of c16.py: product:coo@coo:huge / product:gcxs@gcxs:huge, deadline 60 s incl. JIT warm-up):
F-c16-dot-rows-times-cols   COO @ COO / GCXS @ GCXS (2-d) reset `next_[:] = -1` once per result row (4b845d6); Props/C16: statement_dot_csr_csr.
"""
from __future__ import annotations

BIG = 10**11


def _prod(l):
    p = 1
    for v in l:
        p *= v
    return p


def classify(name, case, msg):
    op = case.get("op")
    fmt = case.get("format")
    x = case.get("x") or {}
    shape = x.get("shape") or []
    mem = "MemoryError" in msg or '"err": "memory"' in msg
    if op in ("from_coo", "asformat") and mem:
        ca = case.get("caxes") if op == "from_coo" else (case.get("kwargs") or {}).get("compressed_axes")
        if ca is not None and len(ca) >= 2 and _prod(shape[a] for a in ca) >= BIG and (op == "from_coo" or case.get("to") == "gcxs"):
            return "F-c16-gcxs-indptr-product"
    if "array is too big" in msg and "ValueError" in msg and _prod(shape) * 8 >= 2**63:
        if op == "mixed" or (op == "reduce_batch" and all(str(it[0]).startswith("nan") for it in case.get("items", []))):
            return "F-c16-dense-operand-view-limit"
    if op == "method" and case.get("name") in ("var", "std") and mem and len(shape) >= 2 and _prod(shape) >= BIG \
            and (case.get("kwargs") or {}).get("axis") is not None:
        return "F-c16-var-densifies"
    if isinstance(fmt, list) and fmt and fmt[0] == "gcxs" and len(shape) >= 3 and mem:
        ca = fmt[1] or []
        if op == "reduce" and case.get("axes") is not None and set(a % len(shape) for a in case["axes"]) >= set(ca) \
                and len(shape) - len(case["axes"]) >= 2:
            return "F-c16-gcxs-reduce-product"
        if op == "getitem":
            idx = case.get("index") or []
            full_unc = [d for d in range(len(shape)) if d not in ca and (d >= len(idx) or (idx[d][0] == "s" and idx[d][1:] == [None, None, None]))]
            if len(full_unc) >= 2 and all(e[0] in ("i", "s") for e in idx):
                return "F-c16-gcxs-getitem-product"
    return None

"""Shared machinery of the checks: paths, Lean build + axiom audit, model driver, evidence, verdicts.

Everything here is deterministic given VERIF_SEED.  Nothing is kept under /tmp; scratch goes to a
mkdtemp under /var/tmp and is removed on exit.
"""
from __future__ import annotations

import contextlib
import fcntl
import hashlib
import json
import os
import re
import subprocess
import sys
import time
from pathlib import Path

ROOT = Path(__file__).resolve().parent.parent
LEAN = ROOT / "lean"
REPO = Path(os.environ.get("VERIF_REPO", "/repo"))
DRIVER = LEAN / ".lake" / "build" / "bin" / "svdriver"
ALLOWED_AXIOMS = {"propext", "Classical.choice", "Quot.sound"}
FORBIDDEN = re.compile(r"\b(sorry|admit|native_decide|bv_decide|implemented_by|unsafe)\b|^\s*axiom\s|maxHeartbeats\s+0\b", re.M)


def log(*a):
    print(*a, file=sys.stderr, flush=True)


@contextlib.contextmanager
def build_lock():
    LEAN.mkdir(exist_ok=True)
    with open(LEAN / ".buildlock", "w") as f:
        fcntl.flock(f, fcntl.LOCK_EX)
        try:
            yield
        finally:
            fcntl.flock(f, fcntl.LOCK_UN)


def strip_comments(src: str) -> str:
    """remove Lean comments (nested block comments and line comments) and string literals"""
    out = []
    i, n, depth = 0, len(src), 0
    while i < n:
        if src.startswith("/-", i):
            depth += 1
            i += 2
        elif depth and src.startswith("-/", i):
            depth -= 1
            i += 2
        elif depth:
            i += 1
        elif src.startswith("--", i):
            while i < n and src[i] != "\n":
                i += 1
        elif src[i] == '"':
            i += 1
            while i < n and src[i] != '"':
                i += 2 if src[i] == "\\" else 1
            i += 1
        else:
            out.append(src[i])
            i += 1
    return "".join(out)


def forbidden_tokens() -> list[str]:
    hits = []
    for p in sorted(LEAN.rglob("*.lean")):
        if ".lake" in p.parts:
            continue
        for m in FORBIDDEN.finditer(strip_comments(p.read_text())):
            hits.append(f"{p.relative_to(LEAN)}: {m.group(0).strip()}")
    return hits


def regenerate() -> dict:
    """T1: run the translator against /repo's working tree (idempotent, only rewrites changed files)."""
    r = subprocess.run(
        [sys.executable, str(ROOT / "tools" / "py2lean.py"), "--repo", str(REPO), "--out", str(LEAN / "SparseV" / "Generated")],
        capture_output=True, text=True,
    )
    try:
        info = json.loads(r.stdout.strip().splitlines()[-1]) if r.stdout.strip() else {}
    except Exception:
        info = {}
    info["returncode"] = r.returncode
    info["stderr"] = r.stderr[-2000:]
    return info


def lake_build(targets: list[str], timeout=1500) -> tuple[bool, str]:
    r = subprocess.run(["lake", "build", *targets], cwd=LEAN, capture_output=True, text=True, timeout=timeout)
    return r.returncode == 0, (r.stdout + r.stderr)


def audit(pid: str) -> tuple[dict, str]:
    """Elaborate Audit/<pid>.lean (a list of `#print axioms`) and parse theorem -> axioms."""
    f = LEAN / "SparseV" / "Audit" / f"{pid}.lean"
    if not f.exists():
        return {}, "no audit file"
    r = subprocess.run(["lake", "env", "lean", str(f.relative_to(LEAN))], cwd=LEAN, capture_output=True, text=True, timeout=900)
    txt = r.stdout + r.stderr
    res = {}
    for m in re.finditer(r"'([^']+)' depends on axioms: \[([^\]]*)\]", txt):
        res[m.group(1)] = [a.strip() for a in m.group(2).replace("\n", " ").split(",") if a.strip()]
    for m in re.finditer(r"'([^']+)' does not depend on any axioms", txt):
        res[m.group(1)] = []
    return res, txt


def expected_theorems(pid: str) -> list[str]:
    f = LEAN / "SparseV" / "Audit" / f"{pid}.lean"
    if not f.exists():
        return []
    return re.findall(r"^#print axioms\s+(\S+)", strip_comments(f.read_text()), re.M)


class Driver:
    """Pipe a batch of JSON lines through the compiled model driver."""

    def __init__(self):
        self.calls = 0

    def run(self, reqs: list[list]) -> list[dict]:
        if not reqs:
            return []
        inp = "\n".join(json.dumps(r, separators=(",", ":")) for r in reqs) + "\n"
        r = subprocess.run([str(DRIVER_OVERRIDE or DRIVER)], input=inp, capture_output=True, text=True, timeout=1200)
        if r.returncode != 0:
            raise RuntimeError(f"driver failed rc={r.returncode}: {r.stderr[-500:]}")
        out = [json.loads(l) for l in r.stdout.splitlines() if l.strip()]
        if len(out) != len(reqs):
            raise RuntimeError(f"driver answered {len(out)} lines for {len(reqs)} requests")
        self.calls += len(reqs)
        return out


def source_fingerprint(relpath: str, names: list[str]) -> dict:
    """hash of the normalised AST of the named top-level functions / Class.methods of a repo file"""
    import ast

    src = (REPO / relpath).read_text()
    tree = ast.parse(src)
    found = {}
    for node in ast.walk(tree):
        if isinstance(node, ast.ClassDef):
            for sub in node.body:
                if isinstance(sub, ast.FunctionDef | ast.AsyncFunctionDef):
                    found[f"{node.name}.{sub.name}"] = sub
    for node in tree.body:
        if isinstance(node, ast.FunctionDef):
            found[node.name] = node
    res = {}
    for n in names:
        if n in found:
            node = found[n]
            body = [b for b in node.body if not (isinstance(b, ast.Expr) and isinstance(getattr(b, "value", None), ast.Constant) and isinstance(b.value.value, str))]
            dump = ast.dump(ast.Module(body=body, type_ignores=[]), annotate_fields=False, include_attributes=False)
            res[n] = hashlib.sha256(dump.encode()).hexdigest()[:16]
        else:
            res[n] = None
    return res


# ------------------------------------------------------------------------------------------------
# known findings
# ------------------------------------------------------------------------------------------------

def load_known_findings() -> list[dict]:
    p = ROOT / "KNOWN_FINDINGS.txt"
    res = []
    if not p.exists():
        return res
    for line in p.read_text().splitlines():
        line = line.strip()
        if not line or line.startswith("#"):
            continue
        kind, _, rest = line.partition(":")
        d = {"kind": kind.strip()}
        for m in re.finditer(r'(\w+)=("([^"]*)"|\S+)', rest):
            d[m.group(1)] = m.group(3) if m.group(3) is not None else m.group(2)
        d["raw"] = line
        res.append(d)
    return res


# ------------------------------------------------------------------------------------------------
# one run of one property's check
# ------------------------------------------------------------------------------------------------

class Ctx:
    def __init__(self, pid: str, tier: str, seed: int):
        self.pid, self.tier, self.seed = pid, tier, seed
        self.t0 = time.time()
        self.level = "proof"
        self.obligations: list[str] = []
        self.discharged: list[str] = []
        self.undischarged: dict[str, str] = {}
        self.broken: list[str] = []  # broken proof obligations / correspondences (names)
        self.failures: list[dict] = []  # failing inputs of the property (leg C) or of a correspondence (leg A)
        self.known_hits: dict[str, int] = {}
        self.cov: dict = {"evaluations": 0, "distinct_nontrivial": 0, "samples": []}
        self.assumptions: list[str] = []
        self.trusted: list[str] = []
        self.notes: dict = {}
        self._distinct: set = set()
        self.driver = Driver()
        self.quick = tier == "quick"

    # ---- coverage accounting -------------------------------------------------------------
    def count(self, key: str, n: int = 1):
        self.cov[key] = self.cov.get(key, 0) + n

    def case(self, family: str, case, nontrivial: bool = True):
        """register one explored case; distinctness by content hash"""
        self.cov["evaluations"] += 1
        fam = self.cov.setdefault("by_family", {})
        fam[family] = fam.get(family, 0) + 1
        if nontrivial:
            h = hashlib.sha1(json.dumps([family, case], sort_keys=True, default=str).encode()).digest()[:10]
            if h not in self._distinct:
                self._distinct.add(h)
        if len(self.cov["samples"]) < 6 and (self.cov["evaluations"] % 37 == 1):
            self.cov["samples"].append({"family": family, "case": case})

    def sample(self, obj):
        if len(self.cov["samples"]) < 12:
            self.cov["samples"].append(obj)

    # ---- results ---------------------------------------------------------------------------
    def fail(self, leg: str, family: str, case, detail: str, finding: str | None = None):
        """leg: 'A' correspondence model/impl, 'B' spec vs numpy, 'C' property oracle, 'T1' translator"""
        self.failures.append({"leg": leg, "family": family, "case": case, "detail": detail, "finding": finding})

    def broke(self, name: str, why: str):
        self.broken.append(name)
        self.undischarged[name] = why


def write_replay(ctx: Ctx, name: str, obj: dict) -> str:
    d = ROOT / "replays" / ctx.pid
    d.mkdir(parents=True, exist_ok=True)
    p = d / f"{name}.json"
    p.write_text(json.dumps(obj, indent=1, default=str))
    return str(p.relative_to(ROOT))


def prove(ctx: Ctx, pid: str, extra_targets: list[str] | None = None, gen_info: dict | None = None, uses: list[str] | None = None):
    """Step 1+2 of every check: regenerate (T1), build this property's Lean targets, audit axioms."""
    with build_lock():
        gen = gen_info if gen_info is not None else regenerate()
        ctx.notes["translator"] = {k: gen.get(k) for k in ("functions", "refused", "changed", "returncode")}
        if gen.get("returncode", 1) != 0:
            ctx.broke("T1:py2lean", f"translator failed: {gen.get('stderr', '')[-300:]}")
        for fn in gen.get("refused") or []:
            # `uses`: names of the generated definitions/tables this property depends on (None = all)
            if uses is None or any(fn.startswith(u + ":") or fn.startswith(f"table {u}:") for u in uses):
                ctx.broke(f"T1:{fn.split(':')[0]}", f"translator refused: {fn}")
        # two separate builds: this property's obligations depend on its own theorem files only; the driver is shared by
        # all twenty checks and links every model, so a model of ANOTHER property that stops building (a translated
        # fragment refused or reshaped after a change to /repo) must not take this property's proofs down with it
        ok, out = lake_build([f"SparseV.Props.{pid}"] + (extra_targets or []))
        ctx.notes["lake_build_ok"] = ok
        if not ok:
            ctx.notes["lake_build_log"] = out[-3000:]
        ok_drv, out_drv = lake_build(["svdriver"])
        ctx.notes["driver_build_ok"] = ok_drv
        if not ok_drv:
            ctx.notes["driver_build_log"] = out_drv[-1500:]
        thms = expected_theorems(pid)
        ctx.obligations = thms
        axioms, txt = audit(pid) if ok else ({}, out)
        for t in thms:
            ax = axioms.get(t)
            if ax is None:
                ctx.broke(f"theorem:{t}", "does not check against the current definitions (build/audit failed)")
            elif not set(ax) <= ALLOWED_AXIOMS:
                ctx.broke(f"theorem:{t}", f"depends on non-standard axioms {ax}")
            else:
                ctx.discharged.append(t)
        ctx.notes["axioms"] = {t: axioms.get(t) for t in thms}
        if ok and not ctx.quick:
            # thorough tier: the toolchain's independent re-checker replays the compiled declarations of this property's
            # theorem modules through the kernel once more
            mods = [f"SparseV.Props.{pid}"] + [t for t in (extra_targets or []) if t.startswith("SparseV.Props.")]
            try:
                r = subprocess.run(["lake", "env", "leanchecker", *mods], cwd=LEAN, capture_output=True, text=True, timeout=3000)
                ctx.notes["leanchecker"] = {"modules": mods, "returncode": r.returncode, "tail": (r.stdout + r.stderr)[-300:]}
                if r.returncode != 0:
                    ctx.broke("audit:leanchecker", f"leanchecker rejected {mods}: {(r.stdout + r.stderr)[-300:]}")
            except (subprocess.TimeoutExpired, FileNotFoundError) as e:
                ctx.notes["leanchecker"] = {"modules": mods, "skipped": str(e)[:200]}
        bad = forbidden_tokens()
        if bad:
            ctx.broke("audit:forbidden-tokens", "; ".join(bad[:5]))
        ctx.notes["forbidden_tokens"] = bad
        driver_ok = DRIVER.exists() and ok_drv
        if not driver_ok:
            # proof side is down: build the driver against the committed reference copy for execution only
            ctx.notes["driver_fallback"] = "Generated.ref"
            ref, gen_dir = LEAN / "SparseV" / "Generated.ref", LEAN / "SparseV" / "Generated"
            saved = {p.name: p.read_text() for p in gen_dir.glob("*.lean")}
            try:
                for p in ref.glob("*.lean"):
                    (gen_dir / p.name).write_text(p.read_text())
                ok2, out2 = lake_build(["svdriver"])
                ctx.notes["driver_fallback_ok"] = ok2
                if ok2:
                    import shutil
                    # one copy per process: another check may be executing its own fallback binary right now (ETXTBSY on overwrite)
                    fb = LEAN / ".lake" / "build" / "bin" / f"svdriver.ref.{os.getpid()}"
                    shutil.copy2(DRIVER, fb)
                    import atexit
                    atexit.register(lambda p=fb: p.unlink(missing_ok=True))
                    global DRIVER_OVERRIDE
                    DRIVER_OVERRIDE = fb
            finally:
                for n, s in saved.items():
                    (gen_dir / n).write_text(s)
    return ctx


DRIVER_OVERRIDE = None


def finish(ctx: Ctx) -> int:
    """classify, write evidence, print verdict lines; returns exit status"""
    known = [k for k in load_known_findings() if k.get("kind") == "finding" and k.get("property") == ctx.pid]
    known_ids = {k["id"]: k for k in known}
    unknown = []
    for f in ctx.failures:
        fid = f.get("finding")
        if fid and fid in known_ids and f["leg"] == "C":
            ctx.known_hits[fid] = ctx.known_hits.get(fid, 0) + 1
        else:
            unknown.append(f)
    lines = []
    for fid, n in sorted(ctx.known_hits.items()):
        lines.append(f"KNOWN-FINDING: property={ctx.pid} {fid} {known_ids[fid].get('what', '')} ({n} cases this run)")
    status = 0
    replay = None
    real = [f for f in unknown if f["leg"] == "C"]
    other = [f for f in unknown if f["leg"] != "C"]
    if real:
        f = real[0]
        replay = write_replay(ctx, "violation", {"property": ctx.pid, "kind": "failing-input", "seed": ctx.seed, "tier": ctx.tier,
                                                 "failure": f, "more": real[1:6], "broken": ctx.broken})
        lines.append(f"VIOLATION property={ctx.pid} replay={replay}")
        status = 1
    elif other or ctx.broken:
        replay = write_replay(ctx, "violation", {"property": ctx.pid, "kind": "no-failing-input-found", "seed": ctx.seed, "tier": ctx.tier,
                                                 "no_longer_checks": ctx.broken, "why": ctx.undischarged,
                                                 "correspondence_failures": other[:6]})
        lines.append(f"VIOLATION property={ctx.pid} replay={replay} no-failing-input-found")
        status = 1
    ctx.cov["distinct_nontrivial"] = len(ctx._distinct)
    cov = dict(ctx.cov)
    cov.update({
        "obligations": len(ctx.obligations),
        "discharged": len(ctx.discharged),
        "obligation_names": ctx.obligations,
        "undischarged": ctx.undischarged,
        "checker_cmd": f"cd lean && lake build SparseV.Props.{ctx.pid} && lake env lean SparseV/Audit/{ctx.pid}.lean",
        "trusted_base": ctx.trusted,
        "known_findings_hit": ctx.known_hits,
        "rule": ctx.cov.get("rule", "cases are generated from VERIF_SEED; a case is non-trivial when it stores at least one element or exercises an error path, distinct by content hash"),
    })
    cov.update(ctx.notes)
    ev = {
        "property_id": ctx.pid, "tier": ctx.tier, "seed": ctx.seed, "level": ctx.level,
        "coverage": cov, "assumptions": ctx.assumptions, "wall_s": round(time.time() - ctx.t0, 2),
        "violations": len(real) + (1 if (status and not real) else 0),
    }
    (ROOT / "evidence").mkdir(exist_ok=True)
    (ROOT / "evidence" / f"{ctx.pid}.json").write_text(json.dumps(ev, indent=1, default=str))
    for l in lines:
        print(l, flush=True)
    if status == 0:
        print(f"OK property={ctx.pid} tier={ctx.tier} seed={ctx.seed} obligations={len(ctx.discharged)}/{len(ctx.obligations)} "
              f"evaluations={ctx.cov['evaluations']} wall={ev['wall_s']}s", flush=True)
    return status

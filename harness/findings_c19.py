"""Regions of the known findings of C19 (see KNOWN_FINDINGS.txt).  classify(name, case, msg) -> finding id | None.

The creation functions and `random` themselves are clean on the unchanged tree (`full_like` computes
`compressed_axes` and then drops it: not value-visible, not a finding).  Three defects are visible through `asarray`:

F-asarray-dtype-ignored   asarray(<COO|DOK|GCXS>, dtype=...) returns `obj.asformat(format)` and never looks at `dtype`
                          (nor `copy`): the result keeps the input's dtype.
F-asarray-dok-0d          asarray(<scalar or 0-d array>, format="dok") -> DOK.from_numpy -> np.nonzero(0-d) raises ValueError.
F-asarray-empty-format    asarray(<non-sparse input with a zero extent>, format="gcxs"|"dok", dtype=<a dtype other than the input's>)
                          returns a COO: `astype` is element-wise evaluation, whose size-0 shortcut ignores the output format.
"""
from __future__ import annotations


def classify(name, case, msg):
    if name != "asarray":
        return None
    if (case.get("obj") in ("COO", "DOK", "GCXS") and case.get("dtype") is not None and case.get("obj_dtype") != case.get("dtype")
            and msg.startswith(f"dtype {case.get('obj_dtype')}, numpy {case.get('dtype')}")):
        return "F-asarray-dtype-ignored"
    if (case.get("format") == "dok" and case.get("shape") == [] and case.get("obj") in ("ndarray", "list", "scalar")
            and msg.startswith("raised ValueError: Calling nonzero on 0d arrays")):
        return "F-asarray-dok-0d"
    if (case.get("format") in ("gcxs", "dok") and 0 in (case.get("shape") or []) and case.get("dtype") is not None
            and case.get("obj_dtype") != case.get("dtype") and case.get("obj") not in ("COO", "DOK", "GCXS")
            and msg == f"result is COO, requested format {case.get('format')}"):
        return "F-asarray-empty-format"
    return None

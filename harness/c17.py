"""C17 — all call paths to an operation give the same answer."""
from __future__ import annotations

import inspect
import json
import operator
import warnings
from pathlib import Path
from unittest import mock

import numpy as np

import core
import findings
import gen
import impl

PID = "C17"
USES = ["dispatchTable"]
CLASSES = ["COO", "GCXS", "DOK"]
TRUSTED = [
    "Lean 4 kernel; axioms propext, Classical.choice, Quot.sound only (audited per theorem each run)",
    "tie T1: Generated/Dispatch.lean (namespace, signatures, forwarding calls with keyword maps, class attributes, MRO, instance "
    "attributes from the source with ast; NumPy's signatures and operator mixin from the installed NumPy) regenerated each run and "
    "validated by this run against introspection (inspect.signature, class __dict__, __mro__, dir(sparse)) and against recorded "
    "forwarding calls (the wrapped method is replaced by a recorder and the wrapper is called with sentinels)",
    "tie T2: the hand-written lookup model (`nep18`, `arrayUfunc`, `bindArg`) is compared with SparseArray.__array_function__ / "
    "__array_ufunc__ / inspect.Signature.bind on every array-function-dispatched NumPy function x class x argument shape; the body of "
    "__array_ufunc__ is read statement by statement by the extractor (nout != 1 branch, trial call, outer branch, out= block -> generated "
    "definitions; any other text is refused) and the model built on those definitions (`arrayUfuncOf`, `ufuncResult`, `outStore`, "
    "`elemwiseFormat`) is compared with the implementation: routes, recorded component calls of divmod with their operand order, class "
    "and attribute dictionary of `out` after the out= block for every format x result kind, format of element-wise results",
    "NumPy on the densified operands is the reference for leg C; dtypes are outside C17",
]


def fmt_of(x):
    return type(x).__name__


def make(rng, shape=(3, 4), dtype=np.float64, density=0.5):
    d = gen.dense(rng, shape, 0, density=density, lo=-3, hi=3).astype(dtype)
    if not d.any():
        d.flat[0] = 2
    return d


STORED_ROUTES = {}  # route -> [operands built, operands that really carry a stored fill value]


def store_fill(d, rng, fill=None, route=None):
    """A COO equal to the dense `d` (fill value `fill`, default 0) that EXPLICITLY STORES elements equal to its fill value, built
    by one of the constructor routes that allow it:

    * 'prune=False'     COO(coords, data, prune=False) with fill-valued entries in `data`
    * 'duplicates'      duplicate coordinates whose values sum to the fill value (the constructor sums them and keeps the sum)
    * 'scipy'           a scipy CSR matrix with explicit zeros (2-d, zero fill)
    * 'gcxs-triple'     GCXS((data, indices, indptr)) with explicit zeros, converted (2-d, zero fill)

    Arrays made by from_numpy / element-wise operations / reductions are pruned and never look like this; a spelling that reads
    `coords`/`data` directly and one that goes through a pruning path differ exactly on such operands."""
    import scipy.sparse as sp
    import sparse

    d = np.asarray(d)
    fv = d.dtype.type(0) if fill is None else d.dtype.type(fill)
    is_fill = np.isnan(d) if (d.dtype.kind == "f" and np.isnan(fv)) else (d == fv)
    kw = {} if fill is None else {"fill_value": fv}
    holes = np.argwhere(is_fill)
    if len(holes) == 0 or d.ndim == 0:
        return sparse.COO.from_numpy(d, **kw), "none"
    take = holes[rng.permutation(len(holes))[: max(1, int(rng.integers(1, len(holes) + 1)) // 2 + 1)]]
    routes = ["prune=False"]
    if d.dtype.kind in "fi" and np.isfinite(np.asarray(fv, dtype=np.float64)):
        routes.append("duplicates")
    if d.ndim == 2 and fill is None and d.dtype.kind in "fi":
        routes += ["scipy", "gcxs-triple"]
    route = route if route in routes else routes[int(rng.integers(0, len(routes)))]
    stored = np.argwhere(~is_fill)
    if route in ("scipy", "gcxs-triple"):
        mask = ~is_fill
        mask[tuple(take.T)] = True
        rows, cols = np.nonzero(mask)
        indptr = np.concatenate([[0], np.cumsum(np.bincount(rows, minlength=d.shape[0]))])
        data = d[rows, cols]
        if route == "scipy":
            c = sparse.COO.from_scipy_sparse(sp.csr_matrix((data, cols, indptr), shape=d.shape))
        else:
            c = sparse.GCXS((data, cols, indptr), shape=d.shape, compressed_axes=(0,)).tocoo()
    elif route == "duplicates":
        k = d.dtype.type(1)
        coords = np.concatenate([stored, take, take]).T
        data = np.concatenate([d[tuple(stored.T)], np.full(len(take), fv + k, dtype=d.dtype), np.full(len(take), -k, dtype=d.dtype)])
        c = sparse.COO(coords, data, shape=d.shape, **kw)
    else:
        coords = np.concatenate([stored, take]).T
        data = np.concatenate([d[tuple(stored.T)], np.full(len(take), fv, dtype=d.dtype)])
        order = rng.permutation(coords.shape[1])
        c = sparse.COO(coords[:, order], data[order], shape=d.shape, prune=False, **kw)
    st = STORED_ROUTES.setdefault(route, [0, 0])
    st[0] += 1
    st[1] += int(c.nnz > int(np.count_nonzero(~is_fill)))
    return c, route


def as_format(d, fmt, stored=None, fill=None):
    """dense -> COO / GCXS / DOK; with `stored` (an rng) the operand explicitly stores some elements equal to its fill value"""
    import sparse

    if stored is not None:
        c, _ = store_fill(d, stored, fill=fill)
    else:
        c = sparse.COO.from_numpy(d) if fill is None else sparse.COO.from_numpy(d, fill_value=fill)
    if fmt == "COO":
        return c
    if fmt == "GCXS":
        return sparse.GCXS.from_coo(c)
    return sparse.DOK.from_coo(c)


def call(thunk):
    with warnings.catch_warnings(), np.errstate(all="ignore"):
        warnings.simplefilter("ignore")
        try:
            return thunk(), None
        except Exception as e:  # noqa: BLE001
            return None, e


def dense_of(r):
    import scipy.sparse as sp
    import sparse

    if isinstance(r, sparse.SparseArray):
        return r.todense()
    if isinstance(r, tuple | list) and any(isinstance(m, sparse.SparseArray) for m in r):
        return [dense_of(m) for m in r]
    if sp.issparse(r):
        return r.toarray()
    return r


def same(a, b):
    if isinstance(b, tuple | list):
        if not isinstance(a, tuple | list) or len(a) != len(b):
            return False
        return all(same(u, v) for u, v in zip(a, b))
    a, b = np.asarray(dense_of(a)), np.asarray(dense_of(b))
    if a.shape != b.shape:
        return False
    with np.errstate(all="ignore"):
        if a.dtype.kind in "fc" or b.dtype.kind in "fc":
            return bool(np.allclose(a, b, rtol=1e-9, atol=1e-12, equal_nan=True))
        return bool(np.array_equal(a, b))


def outcome(thunk):
    """('ok', value) | ('err', class name)"""
    v, e = call(thunk)
    if e is not None:
        return ("err", type(e).__name__, str(e)[:160])
    return ("ok", v, "")


# ------------------------------------------------------------------------------------------------
# T1: the generated table against introspection
# ------------------------------------------------------------------------------------------------

def sig_json(f, drop_first=False):
    s = inspect.signature(f)
    d = {"posonly": [], "pos": [], "kwonly": [], "varargs": False, "varkw": False}
    for p in s.parameters.values():
        if p.kind == p.POSITIONAL_ONLY:
            d["posonly"].append(p.name)
        elif p.kind == p.POSITIONAL_OR_KEYWORD:
            d["pos"].append(p.name)
        elif p.kind == p.KEYWORD_ONLY:
            d["kwonly"].append(p.name)
        elif p.kind == p.VAR_POSITIONAL:
            d["varargs"] = True
        else:
            d["varkw"] = True
    if drop_first:
        if d["posonly"]:
            d["posonly"] = d["posonly"][1:]
        elif d["pos"]:
            d["pos"] = d["pos"][1:]
    return d


def t1_validate(ctx, table):
    import sparse

    classes = {"SparseArray": sparse.SparseArray, "COO": sparse.COO, "GCXS": sparse.GCXS, "DOK": sparse.DOK}
    n = 0
    # namespace: names
    tnames = {e[0] for e in table["namespace"]}
    real = {a for a in dir(sparse) if not (a.startswith("__") and a.endswith("__"))}
    if tnames != real:
        ctx.fail("T1", "namespace", {"only_table": sorted(tnames - real), "only_real": sorted(real - tnames)}, "namespace attributes differ from dir(sparse)")
    for name, kind, _ in table["namespace"]:
        obj = getattr(sparse, name, None)
        k = "ufunc" if isinstance(obj, np.ufunc) else "class" if isinstance(obj, type) else "module" if inspect.ismodule(obj) else \
            "function" if callable(obj) else "value"
        n += 1
        if k != kind:
            ctx.fail("T1", "namespace-kind", {"name": name}, f"table says {kind}, the object is {k}")
    for cn, want in table["mro"].items():
        got = [c.__name__ for c in classes[cn].__mro__ if c is not object]
        n += 1
        if got != want:
            ctx.fail("T1", "mro", {"class": cn}, f"table {want} real {got}")
    x = as_format(np.eye(3), "COO")
    for cn in CLASSES:
        inst = set(vars(as_format(np.eye(3), cn)))
        want = set()
        for c in table["mro"][cn]:
            want |= set(table["instance"].get(c, []))
        n += 1
        if not inst <= want:
            ctx.fail("T1", "instance-attrs", {"class": cn}, f"instance attributes {sorted(inst - want)} not in the table")
    for e in table["entries"]:
        owner, op, kind = e["owner"], e["op"], e["kind"]
        n += 1
        case = {"owner": owner, "op": op}
        if owner == "sparse":
            obj = getattr(sparse, op, None)
            if obj is None:
                ctx.fail("T1", "entry", case, "not an attribute of sparse")
                continue
            if kind == "ufunc":
                if not isinstance(obj, np.ufunc) or "numpy." + obj.__name__ != e["target"]:
                    ctx.fail("T1", "entry", case, f"table says ufunc {e['target']}, object is {obj!r}")
                continue
            real_sig = sig_json(obj)
            mod = (getattr(inspect.unwrap(obj), "__module__", "") or "").replace("sparse.numba_backend.", "") + "." + inspect.unwrap(obj).__name__
            if mod != e["target"]:
                ctx.fail("T1", "entry", case, f"table target {e['target']}, real definition {mod}")
        elif owner in classes:
            raw = classes[owner].__dict__.get(op, None)
            if raw is None and op not in classes[owner].__dict__:
                ctx.fail("T1", "entry", case, f"not in {owner}.__dict__")
                continue
            k = "property" if isinstance(raw, property) else "classmethod" if isinstance(raw, classmethod) else \
                "staticmethod" if isinstance(raw, staticmethod) else "method" if inspect.isfunction(raw) else "data"
            if k != kind:
                ctx.fail("T1", "entry", case, f"table kind {kind}, real {k}")
                continue
            if k == "data":
                continue
            fn = raw.fget if k == "property" else raw.__func__ if k in ("classmethod", "staticmethod") else raw
            real_sig = sig_json(fn, drop_first=k in ("method", "property", "classmethod"))
        else:
            continue
        ts = {k2: e["sig"][k2] for k2 in ("posonly", "pos", "kwonly", "varargs", "varkw")}
        if real_sig != ts:
            ctx.fail("T1", "signature", case, f"table {ts} real {real_sig}")
    ctx.count("t1_checks", n)
    # forwarding calls, recorded: replace the target method by a recorder, call the wrapper with one sentinel per own parameter
    rec_n = 0
    for e in table["entries"]:
        if e["owner"] != "sparse" or e["fwd"]["kind"] != "method":
            continue
        m = e["fwd"]["name"]
        own = e["sig"]["posonly"] + e["sig"]["pos"] + e["sig"]["kwonly"]
        if not own:
            continue
        first, rest = own[0], own[1:]
        for cn in ("COO", "GCXS"):
            cls = classes[cn]
            if not hasattr(cls, m) or isinstance(inspect.getattr_static(cls, m), property):
                continue
            sent = {p: object() for p in rest}
            seen = {}

            def recorder(self, *a, **k):
                seen["args"], seen["kwargs"] = a, k
                return "recorded"
            xx = as_format(np.eye(3), cn)
            kwargs = {p: sent[p] for p in rest if p not in e["sig"]["posonly"]}
            posargs = [sent[p] for p in rest if p in e["sig"]["posonly"]]
            definer = next(c for c in cls.__mro__ if m in c.__dict__)
            with mock.patch.object(definer, m, recorder):
                got, err = call(lambda: getattr(sparse, e["op"])(xx, *posargs, **kwargs))
            rec_n += 1
            case = {"wrapper": e["op"], "method": m, "class": cn}
            ctx.case("A:forward", case, nontrivial=True)
            if err is not None or got != "recorded":
                ctx.fail("A", "T1:forward", case, f"wrapper did not reach {cn}.{m}: {err!r}")
                continue
            want_kw = {k: v["param"] for k, v in e["fwd"]["kw"] if "param" in v}
            want_pos = [v.get("param") for v in e["fwd"]["pos"]]
            got_kw = {k: next((p for p, s in sent.items() if s is v), None) for k, v in seen["kwargs"].items()}
            got_pos = [next((p for p, s in sent.items() if s is v), None) for v in seen["args"]]
            # the table states the call in the CALLEE's terms (positional prefix, sorted keywords), the wrapper may spell it differently:
            # both are bound to the real method's signature and compared parameter by parameter (which own parameter reaches which
            # parameter of the method, and which parameters of the method are supplied at all)
            try:
                msig = inspect.signature(definer.__dict__[m])
                tb = msig.bind(None, *want_pos, **{k: v.get("param") for k, v in e["fwd"]["kw"]}).arguments
                rb = msig.bind(None, *got_pos, **got_kw).arguments
                differs = tb != rb
            except (TypeError, ValueError, KeyError):
                differs = ({k: v for k, v in got_kw.items() if v is not None} != want_kw or [p for p in got_pos] != want_pos
                           or set(seen["kwargs"]) != {k for k, _ in e["fwd"]["kw"]})
            if differs:
                ctx.fail("A", "T1:forward", case, f"table pos {want_pos} kw {want_kw}; recorded pos {got_pos} kw {got_kw}")
            used = set(got_kw.values()) | set(got_pos)
            dropped = [p for p in rest if p not in used]
            if sorted(dropped) != sorted(p for p in e["dropped"] if p != first):
                ctx.fail("A", "T1:forward", case, f"table dropped {e['dropped']}; recorded call ignores {dropped}")
    ctx.count("forward_recordings", rec_n)
    _ = x


# ------------------------------------------------------------------------------------------------
# T2: the lookup model against __array_function__ / __array_ufunc__ / Signature.bind
# ------------------------------------------------------------------------------------------------

def numpy_dispatchables():
    import numpy.fft
    import numpy.linalg

    out = []
    for path, module in (("numpy", np), ("numpy.linalg", np.linalg), ("numpy.fft", np.fft)):
        for pub in sorted(dir(module)):
            if pub.startswith("_"):
                continue
            f = getattr(module, pub)
            if callable(f) and not isinstance(f, type | np.ufunc) and hasattr(f, "_implementation"):
                out.append((f"{path}.{pub}", f))
    return out


MARK_NS, MARK_TY = object(), object()


def marker_like(orig, mark):
    """a stand-in that returns `mark` and keeps the signature of `orig` (so that a signature test in the dispatcher sees the original)"""
    import functools

    def standin(*a, **k):
        return mark
    try:
        return functools.wraps(orig)(standin)
    except (AttributeError, TypeError):
        return standin


def observe_lookup(x, func, nargs, kws):
    """which branch of __array_function__ answers, observed by replacing the candidates with signature-preserving markers"""
    import contextlib

    import sparse

    name = func.__name__
    args = (x,) + (0,) * (nargs - 1)
    kwargs = {k: 0 for k in kws}
    path = getattr(func, "__module__", "numpy").split(".")[1:]
    cls = type(x)
    mod, ok = sparse, True
    for p in path:
        if not hasattr(mod, p):
            ok = False
            break
        mod = getattr(mod, p)
    ns_there = ok and hasattr(mod, name)
    static = next(((c, c.__dict__[name]) for c in cls.__mro__ if name in c.__dict__), None)
    ty_callable = static is not None and callable(getattr(cls, name, None))
    with contextlib.ExitStack() as st:
        if ns_there:
            st.enter_context(mock.patch.object(mod, name, marker_like(getattr(mod, name), MARK_NS)))
        if ty_callable and inspect.isfunction(static[1]):
            st.enter_context(mock.patch.object(static[0], name, marker_like(static[1], MARK_TY)))
        r, e = call(lambda: x.__array_function__(func, (cls,), args, kwargs))
    if r is MARK_NS:
        return "namespace"
    if r is MARK_TY:
        return "type"
    if r is NotImplemented:
        return "notimplemented"
    if ns_there:
        return f"?ns:{e!r}"
    if e is None and hasattr(x, name):
        v, e2 = call(lambda: getattr(x, name))
        if e2 is None and (r is v or same_scalar(r, v)):
            return "attr"
    if static is not None:
        return "type"  # a class attribute that is not a plain function (classmethod / non-callable) was called
    return f"?{type(r).__name__}:{e!r}"


def same_scalar(a, b):
    try:
        return bool(np.all(np.asarray(dense_of(a)) == np.asarray(dense_of(b))))
    except Exception:  # noqa: BLE001
        return False


def leg_a_lookup(ctx, table):
    funcs = numpy_dispatchables()
    tab = {(p, n) for p, _, n in table["numpy_functions"]}
    real = {(p, f.__name__) for p, f in funcs}
    if tab != real:
        ctx.fail("T1", "numpy-functions", {"diff": sorted(tab ^ real)[:10]}, "the list of array-function-dispatched NumPy functions differs")
    shapes = [(1, []), (2, []), (1, ["kw0"]), (2, ["axis"]), (1, ["axis"]), (3, [])]
    if ctx.quick:
        shapes = shapes[:4]
    d = np.array([[1.0, 0.0, 2.0], [0.0, 3.0, 0.0]])
    n = 0
    for cn in CLASSES:
        x = as_format(d, cn)
        qs = []
        for pub, f in funcs:
            path = getattr(f, "__module__", "numpy").split(".")[1:]
            for na, kws in shapes:
                qs.append([path, f.__name__, na, kws])
        model = ctx.driver.run([["c17_nep18", cn, qs]])[0]["ok"]
        i = 0
        for pub, f in funcs:
            for na, kws in shapes:
                got = observe_lookup(x, f, na, kws)
                case = {"class": cn, "func": pub, "nargs": na, "kwargs": kws}
                ctx.case(f"A:nep18:{model[i]}", case, nontrivial=model[i] != "notimplemented" or na == 1)
                n += 1
                if got != model[i]:
                    ctx.fail("A", "model:nep18", case, f"model {model[i]} implementation {got}")
                i += 1
    ctx.count("nep18_lookups", n)
    # __array_ufunc__ routing
    x = as_format(d, "COO")
    dense_out = np.zeros_like(d)
    sparse_out = as_format(np.zeros_like(d), "COO")
    sparse_out2 = as_format(np.zeros_like(d), "COO")
    probes = [
        (np.add, "__call__", (x, x), {}), (np.add, "reduce", (x,), {"axis": 0}), (np.multiply, "outer", (x, x), {}),
        (np.add, "accumulate", (x,), {}), (np.add, "reduceat", (x, [0]), {}), (np.add, "at", (x, [0], 1), {}),
        (np.add, "__call__", (x, x), {"out": (dense_out,)}), (np.add, "__call__", (x, x), {"out": (sparse_out,)}),
        (np.matmul, "__call__", (x, x.T), {}), (np.negative, "__call__", (x,), {}),
        # ufuncs with several results
        (np.divmod, "__call__", (x, x + 1), {}), (np.divmod, "__call__", (x, 2.0), {}), (np.divmod, "__call__", (2.0, x), {}),
        (np.divmod, "__call__", (x, x), {"out": (sparse_out, sparse_out2)}), (np.divmod, "__call__", (x, x), {"out": (dense_out, dense_out)}),
        (np.divmod, "outer", (x, x), {}), (np.divmod, "reduce", (x,), {}), (np.divmod, "at", (x, [0], 1), {}),
        (np.modf, "__call__", (x,), {}), (np.frexp, "__call__", (x,), {}), (np.modf, "__call__", (x,), {"out": (sparse_out, sparse_out2)}),
        (np.floor_divide, "__call__", (x, 2.0), {}), (np.remainder, "__call__", (x, 2.0), {}),
    ]

    def out_flags(kw):
        o = kw.get("out")
        return o is not None, o is None or all(isinstance(t, type(x)) for t in o)
    reqs = [["c17_ufunc_route", uf.__name__, meth, *out_flags(kw)] for uf, meth, _, kw in probes]
    reqs += [["c17_ufunc_result", uf.__name__, meth, *out_flags(kw), len(args)] for uf, meth, args, kw in probes]
    outs = ctx.driver.run(reqs)
    routes, results = outs[:len(probes)], outs[len(probes):]
    from sparse.numba_backend import _sparse_array as sa

    for (uf, meth, args, kw), o, res in zip(probes, routes, results):
        # the component calls of a split are observed by recording what `np.<component>` is called with inside the dispatcher
        seen = []
        model, mres = o["ok"], res["ok"]
        comps = [t["ufunc"] for t in mres["tuple"]] if "tuple" in mres else []

        class _NP:
            """`np` as the dispatcher sees it, with the component ufuncs replaced by recorders"""

            def __getattr__(self, name):
                real = getattr(np, name)
                if name in comps:
                    def rec(*a, _n=name, **k):
                        seen.append((_n, [next((i for i, t in enumerate(args) if t is v), None) for v in a], sorted(k)))
                        return ("component", _n)
                    return rec
                return real
        if comps:
            with mock.patch.object(sa, "np", _NP()):
                r, e = call(lambda: x.__array_ufunc__(uf, meth, *args, **kw))
        else:
            r, e = call(lambda: x.__array_ufunc__(uf, meth, *args, **kw))
        got = "notimplemented" if r is NotImplemented else ("raised:" + type(e).__name__ if e is not None else "handled")
        case = {"ufunc": uf.__name__, "method": meth, "out": sorted(type(t).__name__ for t in kw.get("out", ())), "nargs": len(args)}
        ctx.case("A:ufunc-route", case, nontrivial=True)
        want = "notimplemented" if model == "notimplemented" else "handled"
        if got != want:
            ctx.fail("A", "model:arrayUfunc", case, f"model {model} implementation {got}")
            continue
        if "tuple" in mres:
            want_calls = [(t["ufunc"], t["operands"], []) for t in mres["tuple"]]
            if seen != want_calls or r != tuple(("component", c) for c in comps):
                ctx.fail("A", "model:ufuncResult", case, f"model: the tuple of {want_calls}; implementation called {seen} and returned {r!r:.120}")
        elif model.startswith("split"):
            ctx.fail("A", "model:ufuncResult", case, f"route {model} but result {mres}")
        elif got == "handled" and isinstance(r, tuple):
            ctx.fail("A", "model:ufuncResult", case, f"model: one array by {model}; implementation returned a tuple of {len(r)}")


def fmt_json(f):
    """harness format name -> the model's `Fmt` as JSON"""
    return f if f in ("coo", "dok") else {"gcxs": [int(a) for a in f[1]]}


def build(d, f, fill=None, stored=None):
    """dense -> array of format `f` ('coo' | 'dok' | ('gcxs', compressed_axes)); `stored` (an rng): with explicitly stored fill values"""
    import sparse

    if stored is not None:
        c, _ = store_fill(d, stored, fill=fill)
    else:
        c = sparse.COO.from_numpy(d) if fill is None else sparse.COO.from_numpy(d, fill_value=fill)
    if f == "coo":
        return c
    if f == "dok":
        return sparse.DOK.from_coo(c)
    return sparse.GCXS.from_coo(c, compressed_axes=tuple(f[1]))


def fmt_name(f):
    return f if isinstance(f, str) else "gcxs" + "".join(str(a) for a in f[1])


def holds_of(obj):
    """whose attribute dictionary an object carries, read from its __dict__ (not from its class)"""
    v = vars(obj)
    if isinstance(v.get("data"), dict):
        return "dok"
    if "indptr" in v and "indices" in v:
        ca = v.get("_compressed_axes")
        return {"gcxs": [int(a) for a in ca] if ca is not None else []}
    if "coords" in v:
        return "coo"
    return "?" + ",".join(sorted(v))[:60]


FORMATS_2D = ["coo", ("gcxs", (0,)), ("gcxs", (1,)), "dok"]
FORMATS_3D = ["coo", ("gcxs", (0,)), ("gcxs", (1,)), ("gcxs", (2,)), ("gcxs", (0, 1)), ("gcxs", (1, 2)), "dok"]


def leg_a_out(ctx, table):
    """the out= block of __array_ufunc__ and the format rule of the element-wise machinery, model vs implementation, on the
    representation: for every format of `out` x everything the computation can hand back (dense, every format) x shapes equal or
    not, the element-wise call is replaced by one that returns the prepared result; afterwards the CLASS of the target and the
    attribute dictionary it carries are compared with `outStore Gen.ufuncOutSteps`."""
    import sparse
    from sparse.numba_backend import _sparse_array as sa

    ctx.notes["array_ufunc_read"] = {k: table.get(k) for k in ("multi_out_guard", "multi_out_split", "multi_out_ufuncs", "out_trial_ones", "out_steps",
                                                                 "outer_final_reverse")}
    d = np.array([[1.0, 0.0, 2.0, 0.0], [0.0, 3.0, 0.0, 1.0], [2.0, 0.0, 0.0, 4.0]])
    e = np.array([[0.0, 1.0, 2.0, 0.0], [1.0, 3.0, 0.0, 0.0], [2.0, 0.0, 5.0, 4.0]])
    dflt = [int(a) for a in sparse.COO.from_numpy(d).asformat("gcxs").compressed_axes]
    cases, reqs = [], []
    for fo in FORMATS_2D:
        for fr in ["dense"] + FORMATS_2D:
            for shape_ok in (True, False):
                cases.append((fo, fr, shape_ok))
                reqs.append(["c17_out_store", fmt_json(fo), "dense" if fr == "dense" else fmt_json(fr), shape_ok, dflt])
    outs = ctx.driver.run(reqs)
    errname = {"ValueError": "value", "TypeError": "type", "AttributeError": "internal"}
    for (fo, fr, shape_ok), o in zip(cases, outs):
        res_dense = d + e if shape_ok else (d + e)[:2]
        result = res_dense if fr == "dense" else build(res_dense, fr)
        target, a, b = build(np.zeros_like(d), fo), build(d, fo), build(e, fo)
        with mock.patch.object(sa, "elemwise", lambda *args, **kw: result):
            r, err = call(lambda: target.__array_ufunc__(np.add, "__call__", a, b, out=(target,)))
        case = {"out": fmt_name(fo), "computed": fr if fr == "dense" else fmt_name(fr), "shape_ok": shape_ok}
        ctx.case("A:out-store", case, nontrivial=True)
        if err is not None:
            got = {"err": errname.get(type(err).__name__, type(err).__name__)}
        else:
            got = {"ok": {"cls": type(target).__name__, "holds": holds_of(target)}, "returned_out": r is target}
        want = {"err": o["err"]} if "err" in o else {"ok": {"cls": o["ok"]["cls"], "holds": o["ok"]["holds"]}, "returned_out": True}
        if got != want:
            ctx.fail("A", "model:outStore", case, f"model {want} implementation {got}")
    # the format of an element-wise result (what the out= block is handed when nothing is replaced)
    combos = [(fa, fb) for fa in FORMATS_2D for fb in FORMATS_2D] + [(("gcxs", (1,)), ("gcxs", (1,)), "dok"), ("dok", "dok", "dok"),
                                                                      (("gcxs", (0,)), ("gcxs", (0,)), ("gcxs", (0,))), ("coo", "dok", ("gcxs", (1,)))]
    outs = ctx.driver.run([["c17_elemwise_format", dflt, [fmt_json(f) for f in fs]] for fs in combos])
    for fs, o in zip(combos, outs):
        ops = [build(d * (k + 1), f) for k, f in enumerate(fs)]
        r, err = call(lambda: np.add(*ops) if len(ops) == 2 else sparse.elemwise(lambda u, v, w: u + v + w, *ops))
        case = {"formats": [fmt_name(f) for f in fs]}
        ctx.case("A:elemwise-format", case, nontrivial=True)
        got = holds_of(r) if err is None else f"raised {err!r}"
        if got != o["ok"]:
            ctx.fail("A", "model:elemwiseFormat", case, f"model {o['ok']} implementation {got}")


def leg_a_outer(ctx):
    """the `outer` branch of __array_ufunc__: which operand goes where, with how many trailing axes — model vs the recorded
    element-wise call"""
    from sparse.numba_backend import _sparse_array as sa

    rng_shapes = [[(3,), (4,)], [(2, 3), (4,)], [(3,), (2, 2)], [(2,), (3,), (2,)]]
    outs = ctx.driver.run([["c17_outer_prepare", [len(sh) for sh in shapes]] for shapes in rng_shapes])
    for shapes, o in zip(rng_shapes, outs):
        for cn in CLASSES:
            ops = [as_format(np.arange(1, int(np.prod(sh)) + 1, dtype=np.float64).reshape(sh) * (k + 2), cn) for k, sh in enumerate(shapes)]
            seen = {}

            def recorder(func, *inputs, **kw):
                seen["shapes"] = [tuple(i.shape) for i in inputs]
                return inputs[0]
            with mock.patch.object(sa, "elemwise", recorder):
                _, e = call(lambda: ops[0].__array_ufunc__(np.subtract, "outer", *ops))
            case = {"class": cn, "shapes": [list(sh) for sh in shapes]}
            ctx.case("A:outer", case, nontrivial=True)
            want = [tuple(shapes[i]) + (1,) * t for i, t in o["ok"]]
            if e is not None or seen.get("shapes") != want:
                ctx.fail("A", "model:outerPrepare", case, f"model hands over {want}, implementation {seen.get('shapes')} {e!r}")


def resolved_callable(x, pub_func):
    """the callable __array_function__ reaches for a call with two positional arguments, found by real attribute lookup"""
    import sparse

    name = pub_func.__name__
    path = getattr(pub_func, "__module__", "numpy").split(".")[1:]
    mod = sparse
    try:
        for p in path:
            mod = getattr(mod, p)
        return getattr(mod, name), False
    except AttributeError:
        pass
    f = getattr(type(x), name, None)
    if callable(f):
        return f, True
    return None, False


def bind_probe(f, p):
    """where inspect.Signature.bind puts one argument passed the way the probe says"""
    sig = inspect.signature(f)
    S = object()
    try:
        if "pos" in p["way"]:
            ba = sig.bind_partial(*([None] * p["way"]["pos"] + [S]))
        else:
            ba = sig.bind_partial(**{p["way"]["kw"]: S})
    except TypeError:
        return "rejected"
    where = None
    for k, v in ba.arguments.items():
        par = sig.parameters[k]
        if v is S:
            where = k
        elif par.kind == par.VAR_POSITIONAL and any(u is S for u in v):
            where = "*"
        elif par.kind == par.VAR_KEYWORD and any(u is S for u in v.values()):
            where = "**"
    if where in ("*", "**"):
        return "catchAll"
    if where == p["param"] or p["way"].get("pos") == 0:
        return "accepted"
    return {"misbound": where}


def leg_a_probes(ctx, table):
    """every probe of the model (NumPy parameter x way) against inspect.Signature.bind on the really resolved callable"""
    n = 0
    d = np.array([[1.0, 0.0, 2.0], [0.0, 3.0, 0.0]])
    pubs = {p: getattr(np, p.split(".", 1)[1]) for p, _, _ in table["numpy_sigs"]}
    violations = {}
    for cn in CLASSES:
        x = as_format(d, cn)
        probes = ctx.driver.run([["c17_probes", cn]])[0]["ok"]
        violations[cn] = [p for p in probes if p["result"] not in ("accepted", "catchAll")]
        for p in probes:
            f, via_type = resolved_callable(x, pubs[p["pub"]])
            case = {"class": cn, "pub": p["pub"], "param": p["param"], "way": p["way"]}
            ctx.case(f"A:probe:{p['result'] if isinstance(p['result'], str) else 'misbound'}", case, nontrivial=True)
            n += 1
            if f is None:
                ctx.fail("A", "model:probe", case, "model has a by-name target, real lookup finds none")
                continue
            got = bind_probe(f, p)
            if got not in ("accepted", "catchAll") and table.get("bind_fallback") and not via_type:
                # the `_binds` step of __array_function__: a call the namespace function cannot take goes to the method that can
                meth = getattr(type(x), pubs[p["pub"]].__name__, None)
                if callable(meth):
                    got2 = bind_probe(meth, p)
                    if got2 in ("accepted", "catchAll"):
                        got = got2
            if got != p["result"]:
                ctx.fail("A", "model:probe", case, f"model {p['result']} Signature.bind {got} on {getattr(f, '__qualname__', f)}")
    ctx.count("probes_checked", n)
    return violations


# ------------------------------------------------------------------------------------------------
# leg C: the spelling matrix on values
# ------------------------------------------------------------------------------------------------

def agree(ctx, family, case, spellings, ref_thunk, must_be_sparse=True, dtype_matters=False):
    """all spellings give NumPy's answer (or all reject cleanly when NumPy does), results stay sparse"""
    import sparse

    ref, ref_err = call(ref_thunk)
    outs = {}
    for name, th in spellings.items():
        v, e = call(th)
        outs[name] = (v, e)
    ctx.case(family, case, nontrivial=True)
    for name, (v, e) in outs.items():
        c = dict(case, spelling=name)
        if ref_err is not None:
            if e is None:
                msg = f"numpy raises {type(ref_err).__name__} but {name} returned"
                ctx.fail("C", family, c, msg, finding=findings.classify(PID, family, c, msg))
            continue
        if e is not None:
            others = [k for k, (vv, ee) in outs.items() if ee is None]
            msg = f"{name} raised {type(e).__name__}: {str(e)[:140]} while {others[:3]} computed"
            ctx.fail("C", family, c, msg, finding=findings.classify(PID, family, c, msg))
            continue
        if not same(v, ref):
            msg = f"{name} differs from NumPy: got {np.asarray(dense_of(v)).tolist()!r:.160} numpy {np.asarray(ref).tolist()!r:.160}"
            ctx.fail("C", family, c, msg, finding=findings.classify(PID, family, c, msg))
            continue
        if dtype_matters and np.asarray(dense_of(v)).dtype != np.asarray(ref).dtype:
            msg = f"{name} returned dtype {np.asarray(dense_of(v)).dtype}, NumPy (and the keyword) say {np.asarray(ref).dtype}"
            ctx.fail("C", family, c, msg, finding=findings.classify(PID, family, c, msg))
            continue
        if must_be_sparse and np.ndim(ref) > 0 and not isinstance(v, sparse.SparseArray | tuple | list):
            msg = f"{name} returned {type(v).__name__}, not a sparse array"
            ctx.fail("C", family, c, msg, finding=findings.classify(PID, family, c, msg))


REDUCTIONS = {"sum": np.add, "prod": np.multiply, "max": np.maximum, "min": np.minimum, "any": np.logical_or, "all": np.logical_and,
              "mean": None, "var": None, "std": None}
UNARY = [("negative", operator.neg, "__neg__"), ("positive", operator.pos, "__pos__"), ("abs", operator.abs, "__abs__")]
BINARY = [("add", operator.add, "__add__", "__radd__"), ("subtract", operator.sub, "__sub__", "__rsub__"),
          ("multiply", operator.mul, "__mul__", "__rmul__"), ("divide", operator.truediv, "__truediv__", "__rtruediv__"),
          ("floor_divide", operator.floordiv, "__floordiv__", "__rfloordiv__"), ("remainder", operator.mod, "__mod__", "__rmod__"),
          ("pow", operator.pow, "__pow__", "__rpow__"), ("less", operator.lt, "__lt__", "__gt__"),
          ("less_equal", operator.le, "__le__", "__ge__"), ("greater", operator.gt, "__gt__", "__lt__"),
          ("greater_equal", operator.ge, "__ge__", "__le__"), ("equal", operator.eq, "__eq__", "__eq__"),
          ("not_equal", operator.ne, "__ne__", "__ne__")]
INT_BINARY = [("bitwise_and", operator.and_, "__and__", "__rand__"), ("bitwise_or", operator.or_, "__or__", "__ror__"),
              ("bitwise_xor", operator.xor, "__xor__", "__rxor__"), ("bitwise_left_shift", operator.lshift, "__lshift__", "__rlshift__"),
              ("bitwise_right_shift", operator.rshift, "__rshift__", "__rrshift__")]
NPNAME = {"pow": "power", "abs": "absolute", "bitwise_left_shift": "left_shift", "bitwise_right_shift": "right_shift"}


def leg_c(ctx, rng, rounds):
    import scipy.sparse as sp
    import sparse

    for it in range(rounds):
        d = make(rng)
        e = make(rng)
        # every second round the sparse operands explicitly STORE some elements equal to the fill value (see `store_fill`)
        sf = rng if it % 2 == 1 else None
        operand = "stored-fill" if sf is not None else "pruned"

        def mk(dense, cn_, _sf=sf):
            return as_format(dense, cn_, stored=_sf)
        for cn in CLASSES:
            x, y = mk(d, cn), mk(e, cn)
            xp = x.__array_namespace__()
            base = {"class": cn, "x": d.tolist(), "operand": operand}
            # ---- reductions: method, namespace, NumPy function, Array-API namespace, ufunc.reduce --------------------------------
            if cn != "DOK":
                for name, uf in REDUCTIONS.items():
                    for axis in (None, 0, 1, (0, 1)):
                        for keepdims in (False, True):
                            dd, xx = (d != 0, x != 0) if name in ("any", "all") else (d, x)
                            if name in ("any", "all") and (cn != "COO" or sf is not None):
                                xx = mk(dd, cn)
                            sp_ = {
                                "method": lambda: getattr(xx, name)(axis=axis, keepdims=keepdims),
                                "sparse.f": lambda: getattr(sparse, name)(xx, axis=axis, keepdims=keepdims),
                                "np.f": lambda: getattr(np, name)(xx, axis=axis, keepdims=keepdims),
                                "xp.f": lambda: getattr(xp, name)(xx, axis=axis, keepdims=keepdims),
                            }
                            if uf is not None:
                                sp_["ufunc.reduce"] = lambda: uf.reduce(xx, axis=axis, keepdims=keepdims)
                            agree(ctx, f"C:reduce:{name}", dict(base, op=name, axis=axis, keepdims=keepdims, x=dd.tolist()), sp_,
                                  lambda: getattr(np, name)(dd, axis=axis, keepdims=keepdims))
                for name in ("sum", "prod", "mean"):
                    # the dtype keyword is observable in the result's dtype
                    agree(ctx, f"C:reduce:{name}:dtype", dict(base, op=name, dtype="float32"), {
                        "method(dtype)": lambda: getattr(x, name)(axis=0, dtype=np.float32),
                        "sparse.f(dtype)": lambda: getattr(sparse, name)(x, axis=0, dtype=np.float32),
                        "xp.f(dtype)": lambda: getattr(xp, name)(x, axis=0, dtype=np.float32),
                        "np.f(dtype)": lambda: getattr(np, name)(x, axis=0, dtype=np.float32),
                    }, lambda: getattr(np, name)(d, axis=0, dtype=np.float32), dtype_matters=True)
                for name in ("var", "std"):
                    k = int(rng.integers(0, 2))
                    agree(ctx, f"C:reduce:{name}:ddof", dict(base, op=name, ddof=k), {
                        "method(ddof)": lambda: getattr(x, name)(axis=0, ddof=k),
                        "sparse.f(correction)": lambda: getattr(sparse, name)(x, axis=0, correction=k),
                        "xp.f(correction)": lambda: getattr(xp, name)(x, axis=0, correction=k),
                        "np.f(correction)": lambda: getattr(np, name)(x, axis=0, correction=k),
                    }, lambda: getattr(np, name)(d, axis=0, ddof=k))
            # ---- element-wise unary ------------------------------------------------------------------------------------------
            for name, opf, dunder in UNARY:
                uf = getattr(np, NPNAME.get(name, name))
                agree(ctx, f"C:unary:{name}", dict(base, op=name), {
                    "operator": lambda: opf(x), "np.ufunc": lambda: uf(x), "sparse.f": lambda: getattr(sparse, name)(x),
                    "xp.f": lambda: getattr(xp, name)(x), "dunder": lambda: getattr(x, dunder)(),
                }, lambda: uf(d))
            for name in ("sin", "expm1", "sign", "square", "isnan", "isinf", "conj", "real", "imag", "round", "ceil"):
                npn = {"round": "round", "conj": "conjugate"}.get(name, name)
                spx = {"np.f": lambda: getattr(np, npn)(x), "sparse.f": lambda: getattr(sparse, name)(x), "xp.f": lambda: getattr(xp, name)(x)}
                if name in ("conj", "round", "isnan", "isinf") and cn != "DOK":
                    spx["method"] = lambda: getattr(x, name)()
                if name in ("real", "imag"):
                    spx["property"] = lambda: getattr(x, name)
                if cn == "DOK" and name in ("isnan", "isinf"):
                    continue  # DOK defines neither method; np.isnan is a ufunc and is covered by the ufunc families
                agree(ctx, f"C:unary:{name}", dict(base, op=name), spx, lambda: getattr(np, npn)(d))
            # ---- binary: operator / reflected operator / ufunc / namespace x operand kinds ---------------------------------
            partners = [("sparse", y, e), ("scalar", 2.0, 2.0), ("ndarray-same-shape", e, e), ("scipy", sp.csr_matrix(e), e)]
            for name, opf, dun, rdun in BINARY:
                uf = getattr(np, NPNAME.get(name, name))
                for kind, py, pd in partners:
                    if kind == "scipy" and name in ("pow", "floor_divide", "remainder", "divide"):
                        continue
                    c = dict(base, op=name, partner=kind, y=np.asarray(pd).tolist())
                    spl = {"x op y": lambda: opf(x, py), "np.ufunc(x, y)": lambda: uf(x, py), "sparse.f(x, y)": lambda: getattr(sparse, name)(x, py),
                           "x.__op__(y)": lambda: getattr(x, dun)(py)}
                    dense_ok = kind == "ndarray-same-shape"
                    agree(ctx, f"C:binary:{name}:{kind}", c, spl, lambda: uf(d, pd), must_be_sparse=not dense_ok)
                    if kind != "scipy":
                        splr = {"y op x": lambda: opf(py, x), "np.ufunc(y, x)": lambda: uf(py, x), "sparse.f(y, x)": lambda: getattr(sparse, name)(py, x)}
                        if kind != "sparse":
                            splr["x.__rop__(y)"] = lambda: getattr(x, rdun)(py)
                        agree(ctx, f"C:binary-reflected:{name}:{kind}", c, splr, lambda: uf(pd, d), must_be_sparse=not dense_ok)
            di, ei = d.astype(np.int64), (np.abs(e) % 3).astype(np.int64)
            xi, yi = mk(di, cn), mk(ei, cn)
            for name, opf, dun, rdun in INT_BINARY:
                uf = getattr(np, NPNAME.get(name, name))
                for kind, py, pd in [("sparse", yi, ei), ("scalar", 1, 1)]:
                    c = dict(base, op=name, partner=kind, x=di.tolist(), y=np.asarray(pd).tolist())
                    agree(ctx, f"C:binary:{name}:{kind}", c, {"x op y": lambda: opf(xi, py), "np.ufunc(x, y)": lambda: uf(xi, py),
                                                              "sparse.f(x, y)": lambda: getattr(sparse, name)(xi, py)}, lambda: uf(di, pd))
            agree(ctx, "C:unary:invert", dict(base, op="invert", x=di.tolist()), {
                "~x": lambda: ~xi, "np.invert": lambda: np.invert(xi), "sparse.bitwise_invert": lambda: sparse.bitwise_invert(xi),
                "sparse.bitwise_not": lambda: sparse.bitwise_not(xi)}, lambda: ~di)
            # ---- products ---------------------------------------------------------------------------------------------------
            if cn != "DOK":
                et = e.T.copy()
                for kind, py, pd in [("sparse", mk(et, cn), et), ("ndarray", et, et), ("scipy", sp.csr_matrix(et), et)]:
                    c = dict(base, op="matmul", partner=kind, y=et.tolist())
                    spl = {"x @ y": lambda: x @ py, "np.matmul": lambda: np.matmul(x, py), "sparse.matmul": lambda: sparse.matmul(x, py),
                           "xp.matmul": lambda: xp.matmul(x, py), "x.__matmul__": lambda: x.__matmul__(py), "np.dot": lambda: np.dot(x, py),
                           "sparse.dot": lambda: sparse.dot(x, py), "x.dot": lambda: x.dot(py), "operator.matmul": lambda: operator.matmul(x, py)}
                    if kind == "scipy":
                        for k in ("np.matmul", "np.dot"):
                            spl.pop(k)  # NumPy does not dispatch on scipy operands the same way for the reference either
                    agree(ctx, f"C:matmul:{kind}", c, spl, lambda: d @ pd, must_be_sparse=kind != "ndarray")
                    if kind == "ndarray":
                        agree(ctx, "C:matmul-reflected:ndarray", c, {
                            "y @ x": lambda: py.T @ x, "np.matmul(y, x)": lambda: np.matmul(py.T, x), "x.__rmatmul__(y)": lambda: x.__rmatmul__(py.T),
                            "sparse.matmul(y, x)": lambda: sparse.matmul(py.T, x), "np.dot(y, x)": lambda: np.dot(py.T, x)},
                            lambda: pd.T @ d, must_be_sparse=False)
                agree(ctx, "C:tensordot", dict(base, op="tensordot", y=et.tolist()), {
                    "np.tensordot": lambda: np.tensordot(x, mk(et, cn), axes=1), "sparse.tensordot": lambda: sparse.tensordot(x, mk(et, cn), axes=1),
                    "xp.tensordot": lambda: xp.tensordot(x, mk(et, cn), axes=1)}, lambda: np.tensordot(d, et, axes=1))
            # ---- shape and conversion operations with several spellings ---------------------------------------------------------
            tgt = (4, 3) if it % 2 else (2, 6)
            shape_spellings = {"method": lambda: x.reshape(tgt), "sparse.reshape": lambda: sparse.reshape(x, tgt), "np.reshape": lambda: np.reshape(x, tgt),
                               "xp.reshape": lambda: xp.reshape(x, tgt), "sparse.reshape(shape=)": lambda: sparse.reshape(x, shape=tgt)}
            agree(ctx, "C:shape:reshape", dict(base, op="reshape", shape=tgt), shape_spellings, lambda: d.reshape(tgt))
            if cn != "DOK":
                agree(ctx, "C:shape:transpose", dict(base, op="transpose"), {
                    "method": lambda: x.transpose((1, 0)), "x.T": lambda: x.T, "np.transpose": lambda: np.transpose(x, (1, 0)),
                    "np.transpose(axes=)": lambda: np.transpose(x, axes=(1, 0)), "sparse.permute_dims": lambda: sparse.permute_dims(x, (1, 0)),
                    "xp.permute_dims": lambda: xp.permute_dims(x, (1, 0)), "np.permute_dims": lambda: np.permute_dims(x, (1, 0)),
                    "sparse.matrix_transpose": lambda: sparse.matrix_transpose(x), "x.mT": lambda: x.mT,
                    "np.matrix_transpose": lambda: np.matrix_transpose(x)}, lambda: d.T)
                agree(ctx, "C:convert:astype", dict(base, op="astype"), {
                    "method": lambda: x.astype(np.int32), "sparse.astype": lambda: sparse.astype(x, np.int32), "np.astype": lambda: np.astype(x, np.int32),
                    "xp.astype": lambda: xp.astype(x, np.int32), "method(copy=)": lambda: x.astype(np.int32, copy=True),
                    "sparse.astype(copy=)": lambda: sparse.astype(x, np.int32, copy=True)}, lambda: d.astype(np.int32))
                agree(ctx, "C:unary:round(decimals)", dict(base, op="round"), {
                    "method": lambda: (x / 3).round(1), "method(kw)": lambda: (x / 3).round(decimals=1), "sparse.round": lambda: sparse.round(x / 3, 1),
                    "np.round": lambda: np.round(x / 3, 1), "np.round(kw)": lambda: np.round(x / 3, decimals=1), "xp.round(kw)": lambda: xp.round(x / 3, decimals=1)},
                    lambda: np.round(d / 3, 1))
                agree(ctx, "C:unary:clip", dict(base, op="clip"), {
                    "method": lambda: x.clip(-1, 2), "method(kw)": lambda: x.clip(min=-1, max=2), "sparse.clip": lambda: sparse.clip(x, -1, 2),
                    "sparse.clip(kw)": lambda: sparse.clip(x, a_min=-1, a_max=2), "np.clip": lambda: np.clip(x, -1, 2),
                    "np.clip(a_min=)": lambda: np.clip(x, a_min=-1, a_max=2)}, lambda: np.clip(d, -1, 2))
            if cn == "COO":
                d1 = d[:, :1]
                x1 = mk(d1, cn)
                agree(ctx, "C:shape:squeeze", dict(base, op="squeeze", x=d1.tolist()), {
                    "method": lambda: x1.squeeze(1), "method(kw)": lambda: x1.squeeze(axis=1), "sparse.squeeze": lambda: sparse.squeeze(x1, 1),
                    "sparse.squeeze(kw)": lambda: sparse.squeeze(x1, axis=1), "np.squeeze": lambda: np.squeeze(x1, 1), "np.squeeze(kw)": lambda: np.squeeze(x1, axis=1),
                    "xp.squeeze": lambda: xp.squeeze(x1, axis=1)}, lambda: np.squeeze(d1, 1))
                agree(ctx, "C:shape:broadcast_to", dict(base, op="broadcast_to"), {
                    "method": lambda: x.broadcast_to((2, 3, 4)), "sparse.broadcast_to": lambda: sparse.broadcast_to(x, (2, 3, 4)),
                    "np.broadcast_to": lambda: np.broadcast_to(x, (2, 3, 4)), "xp.broadcast_to": lambda: xp.broadcast_to(x, (2, 3, 4))},
                    lambda: np.broadcast_to(d, (2, 3, 4)))
                agree(ctx, "C:nonzero", dict(base, op="nonzero"), {
                    "method": lambda: x.nonzero(), "sparse.nonzero": lambda: sparse.nonzero(x), "np.nonzero": lambda: np.nonzero(x),
                    "xp.nonzero": lambda: xp.nonzero(x), "sparse.where(x)": lambda: sparse.where(x), "np.where(x)": lambda: np.where(x)},
                    lambda: np.nonzero(d))
        import time as _t
        secs = ctx.notes.setdefault("leg_c_seconds", {})
        for nm_, th_ in (("outer", lambda: leg_c_outer(ctx, rng, sf)), ("nonfinite-fill", lambda: leg_c_nonfinite_fill(ctx, rng, sf)),
                         ("nonzero-family", lambda: leg_c_nonzero_family(ctx, rng)),
                         ("divmod", lambda: leg_c_divmod(ctx, rng, sf) if it % 6 in (0, 1) else None),
                         ("inplace", lambda: leg_c_inplace(ctx, rng, sf) if it % 6 in (0, 1) else None)):
            t0_ = _t.time()
            th_()
            secs[nm_] = round(secs.get(nm_, 0.0) + _t.time() - t0_, 2)
        if it % 10 == 0:
            core.log(f"C17 leg C {it}/{rounds}")


OUTER_UFUNCS = [("subtract", operator.sub, "float"), ("greater", operator.gt, "float"), ("less_equal", operator.le, "float"),
                ("floor_divide", operator.floordiv, "nonzero"), ("power", operator.pow, "small"), ("left_shift", operator.lshift, "int"),
                ("multiply", operator.mul, "float")]


def leg_c_outer(ctx, rng, stored=None):
    """ufunc.outer(x, y) — through __array_ufunc__(…, "outer", …) — against the operator spelling x[..., None] op y and NumPy,
    for NON-commutative ufuncs (operand order is observable), every format, sparse and dense partners"""
    import sparse

    for name, opf, kind in OUTER_UFUNCS:
        uf = getattr(np, name)
        for shx, shy in [((4,), (3,)), ((2, 3), (3,))]:
            if kind == "int":
                d, e = rng.integers(0, 4, size=shx), rng.integers(0, 3, size=shy)
            elif kind == "small":
                d, e = rng.integers(0, 3, size=shx).astype(float), rng.integers(0, 3, size=shy).astype(float)
            elif kind == "nonzero":
                d, e = rng.integers(0, 5, size=shx).astype(float), rng.integers(1, 4, size=shy).astype(float)
            else:
                d, e = make(rng, shx), make(rng, shy)
            for cn in CLASSES:
                x, y = as_format(d, cn, stored=stored), as_format(e, cn, stored=stored)
                idx = (Ellipsis,) + (None,) * e.ndim
                c = {"class": cn, "op": name + ".outer", "x": d.tolist(), "y": e.tolist(), "operand": "stored-fill" if stored is not None else "pruned"}
                spl = {"np.ufunc.outer(x, y)": lambda: uf.outer(x, y), "sparse.ufunc.outer(x, y)": lambda: getattr(sparse, SP_NAME.get(name, name)).outer(x, y)}
                if name == "multiply":  # a dense partner keeps the result sparse only if func(fill, dense) is constant (C07's mix rule)
                    spl["np.ufunc.outer(x, dense y)"] = lambda: uf.outer(x, e)
                    spl["np.ufunc.outer(dense x, y)"] = lambda: uf.outer(d, y)
                if cn != "DOK":
                    spl["x[..., None] op y"] = lambda: opf(x[idx], y)
                    spl["np.ufunc(x[..., None], y)"] = lambda: uf(x[idx], y)
                agree(ctx, f"C:outer:{name}", c, spl, lambda: uf.outer(d, e), must_be_sparse=False)


SP_NAME = {"power": "pow", "left_shift": "bitwise_left_shift"}
FILL_TESTS = ["isinf", "isnan", "isfinite", "isposinf", "isneginf", "sign", "negative", "abs"]


def leg_c_nonfinite_fill(ctx, rng, stored=None):
    """element-wise tests and sign functions on operands whose FILL is +inf / -inf / NaN (and 2): every spelling, every format.
    The method / namespace spellings compute the result's fill value themselves; the ufunc spelling gets it from elemwise."""
    import sparse

    for fk, fv in (("+inf", np.inf), ("-inf", -np.inf), ("nan", np.nan), ("2", 2.0)):
        shp = (3, 4)
        mask = rng.random(size=shp) < 0.5
        mask.flat[0], mask.flat[1] = True, False
        vals = rng.choice(np.array([-2.0, 1.0, 3.0, np.inf, -np.inf, np.nan]), size=shp)
        d = np.where(mask, vals, fv)
        for cn in CLASSES:
            x = as_format(d, cn, stored=stored, fill=fv)
            xp = x.__array_namespace__()
            for name in FILL_TESTS:
                npf = getattr(np, {"abs": "absolute"}.get(name, name))
                spl = {"np.f(x)": lambda: npf(x), "sparse.f(x)": lambda: getattr(sparse, name)(x), "xp.f(x)": lambda: getattr(xp, name)(x)}
                if hasattr(type(x), name):
                    spl["x.f()"] = lambda: getattr(x, name)()
                if name == "abs":
                    spl["abs(x)"] = lambda: abs(x)
                if name == "negative":
                    spl["-x"] = lambda: -x
                agree(ctx, f"C:fill:{name}", {"class": cn, "op": name, "fill": fk, "x": d.tolist(), "operand": "stored-fill" if stored is not None else "pruned"},
                      spl, lambda: npf(d))


NONZERO_ROUTES = ["pruned", "prune=False", "duplicates", "scipy", "gcxs-triple", "random"]


def leg_c_nonzero_family(ctx, rng):
    """'where are the non-zero elements' in every spelling — x.nonzero(), sparse.nonzero(x), np.nonzero(x), xp.nonzero(x), the
    one-argument sparse.where(x) / np.where(x) / xp.where(x), np.argwhere(x) / sparse.argwhere(x), the truth reductions any/all,
    np.count_nonzero — compared with each other and with NumPy on the densified operand, for every format, 1-d/2-d/3-d, float /
    int / bool data, and for every constructor route that can leave an explicitly STORED ZERO in the operand (and the pruned
    one).  `x.nnz` counts stored elements and is not claimed to be the number of non-zeros.  On a non-zero fill value each
    spelling must raise ValueError or give NumPy's answer."""
    import sparse

    for shape in ((6,), (3, 4), (2, 3, 2)):
        for dtype in (np.float64, np.int64, np.bool_):
            for route in NONZERO_ROUTES:
                if route == "random":
                    if dtype is np.bool_:
                        continue
                    c = sparse.random(shape, density=0.6, random_state=int(rng.integers(0, 2**31)),
                                      data_rvs=lambda n, _r=rng, _t=dtype: _r.integers(-1, 2, size=n).astype(_t))
                    d = c.todense()
                    used = route
                elif route == "pruned":
                    d = make(rng, shape).astype(dtype)
                    c, used = sparse.COO.from_numpy(d), route
                else:
                    d = make(rng, shape).astype(dtype)
                    c, used = store_fill(d, rng, route=route)
                    if used != route:
                        continue  # the route is not available for this rank / dtype
                for cn in CLASSES:
                    x = c if cn == "COO" else sparse.GCXS.from_coo(c) if cn == "GCXS" else sparse.DOK.from_coo(c)
                    xp = x.__array_namespace__()
                    base = {"class": cn, "route": used, "dtype": np.dtype(dtype).name, "x": d.tolist(), "stored": int(x.nnz), "nonzero": int(np.count_nonzero(d))}
                    spl = {"sparse.nonzero(x)": lambda: sparse.nonzero(x), "np.nonzero(x)": lambda: np.nonzero(x), "xp.nonzero(x)": lambda: xp.nonzero(x),
                           "sparse.where(x)": lambda: sparse.where(x), "np.where(x)": lambda: np.where(x), "xp.where(x)": lambda: xp.where(x),
                           "np.argwhere(x).T": lambda: tuple(np.asarray(dense_of(np.argwhere(x))).T),
                           "sparse.argwhere(x).T": lambda: tuple(np.asarray(dense_of(sparse.argwhere(x))).T)}
                    if hasattr(type(x), "nonzero"):
                        spl["x.nonzero()"] = lambda: x.nonzero()
                    agree(ctx, "C:nonzero-family:nonzero", dict(base, op="nonzero"), spl, lambda: np.nonzero(d), must_be_sparse=False)
                    agree(ctx, "C:nonzero-family:argwhere", dict(base, op="argwhere"), {
                        "np.argwhere(x)": lambda: np.argwhere(x), "sparse.argwhere(x)": lambda: sparse.argwhere(x)}, lambda: np.argwhere(d), must_be_sparse=False)
                    # np.count_nonzero: the library does not implement it — TypeError is fine, a number must be NumPy's
                    v, err = call(lambda: np.count_nonzero(x))
                    cc = dict(base, op="count_nonzero")
                    ctx.case("C:nonzero-family:count", cc, nontrivial=True)
                    if (err is not None and not isinstance(err, TypeError)) or (err is None and not same(v, np.count_nonzero(d))):
                        msg = f"np.count_nonzero(x) gives {v!r} / {err!r}, NumPy counts {np.count_nonzero(d)}"
                        ctx.fail("C", "nonzero-family:count", cc, msg, finding=findings.classify(PID, "nonzero-family:count", cc, msg))
                    if cn != "DOK":
                        for name in ("any", "all"):
                            for axis in (None, 0):
                                agree(ctx, f"C:nonzero-family:{name}", dict(base, op=name, axis=axis), {
                                    "x.f()": lambda: getattr(x, name)(axis=axis), "np.f(x)": lambda: getattr(np, name)(x, axis=axis),
                                    "sparse.f(x)": lambda: getattr(sparse, name)(x, axis=axis), "xp.f(x)": lambda: getattr(xp, name)(x, axis=axis),
                                    "ufunc.reduce": lambda: (np.logical_or if name == "any" else np.logical_and).reduce(x, axis=axis)},
                                    lambda: getattr(np, name)(d, axis=axis))
    # a non-zero fill value: every spelling refuses (ValueError) or agrees with NumPy; explicitly stored fill values and stored zeros
    for shape in ((3, 4),):
        d = make(rng, shape)
        d = np.where(d == 0, 2.0, d)
        d.flat[int(rng.integers(0, d.size))] = 0.0  # a genuine zero element, stored
        for stored in (None, rng):
            for cn in CLASSES:
                x = as_format(d, cn, stored=stored, fill=2.0)
                xp = x.__array_namespace__()
                spl = {"sparse.nonzero(x)": lambda: sparse.nonzero(x), "np.nonzero(x)": lambda: np.nonzero(x), "xp.nonzero(x)": lambda: xp.nonzero(x),
                       "sparse.where(x)": lambda: sparse.where(x), "np.where(x)": lambda: np.where(x), "xp.where(x)": lambda: xp.where(x),
                       "np.argwhere(x).T": lambda: tuple(np.asarray(dense_of(np.argwhere(x))).T),
                       "sparse.argwhere(x).T": lambda: tuple(np.asarray(dense_of(sparse.argwhere(x))).T)}
                if hasattr(type(x), "nonzero"):
                    spl["x.nonzero()"] = lambda: x.nonzero()
                for name, th in spl.items():
                    case = {"class": cn, "fill": 2.0, "operand": "stored-fill" if stored is not None else "pruned", "spelling": name, "x": d.tolist()}
                    ctx.case("C:nonzero-family:fill", case, nontrivial=True)
                    v, err = call(th)
                    if err is not None and isinstance(err, ValueError):
                        continue
                    if err is not None or not same(v, np.nonzero(d)):
                        msg = (f"{name} on fill value 2 raised {type(err).__name__}: {str(err)[:100]}" if err is not None else
                               f"{name} on fill value 2 returned {[np.asarray(t).tolist() for t in v]!r:.120}, NumPy {[t.tolist() for t in np.nonzero(d)]!r:.120}")
                        ctx.fail("C", "nonzero-family:fill", case, msg, finding=findings.classify(PID, "nonzero-family:fill", case, msg))


def leg_c_divmod(ctx, rng, stored=None):
    """ufuncs with several results.  `divmod(x, y)`, `x.__divmod__(y)`, `np.divmod(x, y)`, the pairs `(np.floor_divide, np.remainder)`
    and `(x // y, x % y)` — and the reflected spellings — agree with each other and with NumPy for every format and for scalar /
    ndarray / sparse second operands; `np.modf(x)`, `np.frexp(x)` and `np.divmod(x, y, out=…)` are rejected with TypeError and
    leave the operand alone."""
    import sparse

    for dtype in (np.float64, np.int64):
        d = make(rng, dtype=dtype)
        e = make(rng, dtype=dtype)
        nz = np.where(e == 0, 2, e).astype(dtype)
        for f in FORMATS_2D:
            x = build(d, f, stored=stored)
            partners = [("scalar", dtype(2), dtype(2)), ("scalar-negative", dtype(-3), dtype(-3)), ("ndarray", nz, nz), ("sparse", build(nz, f), nz),
                        ("sparse-with-zeros", build(e, f, stored=stored), e), ("ndarray-broadcast", nz[0], nz[0]), ("python-scalar", 2, 2)]
            for kind, py, pd in partners:
                base = {"class": type(x).__name__, "format": fmt_name(f), "op": "divmod", "partner": kind, "dtype": np.dtype(dtype).name,
                        "x": d.tolist(), "y": np.asarray(pd).tolist(), "operand": "stored-fill" if stored is not None else "pruned"}
                dense_partner = kind.startswith("ndarray")
                spl = {"divmod(x, y)": lambda: divmod(x, py), "x.__divmod__(y)": lambda: x.__divmod__(py), "np.divmod(x, y)": lambda: np.divmod(x, py),
                       "(np.floor_divide(x, y), np.remainder(x, y))": lambda: (np.floor_divide(x, py), np.remainder(x, py)),
                       "(x // y, x % y)": lambda: (x // py, x % py),
                       "(sparse.floor_divide(x, y), sparse.remainder(x, y))": lambda: (sparse.floor_divide(x, py), sparse.remainder(x, py))}
                agree_tuple(ctx, "C:divmod", base, spl, lambda: np.divmod(d, pd), sparse_members=not dense_partner)
                # reflected: y on the left.  Not for a BROADCAST ndarray: there func(ndarray, fill) = y // 0 is not one constant and the
                # result could only be produced densely, which the library refuses by policy for every spelling (C07's mix rule)
                if kind not in ("sparse", "sparse-with-zeros", "ndarray-broadcast"):
                    splr = {"divmod(y, x)": lambda: divmod(py, x), "x.__rdivmod__(y)": lambda: x.__rdivmod__(py), "np.divmod(y, x)": lambda: np.divmod(py, x),
                            "(np.floor_divide(y, x), np.remainder(y, x))": lambda: (np.floor_divide(py, x), np.remainder(py, x)),
                            "(y // x, y % x)": lambda: (py // x, py % x)}
                    agree_tuple(ctx, "C:divmod-reflected", base, splr, lambda: np.divmod(pd, d), sparse_members=not dense_partner)
            # rejected cleanly
            o1, o2 = build(np.zeros_like(d), f), build(np.zeros_like(d), f)
            rejected = {"np.modf(x)": lambda: np.modf(x), "np.frexp(x)": lambda: np.frexp(x),
                        "np.divmod(x, 2, out=(o1, o2))": lambda: np.divmod(x, dtype(2), out=(o1, o2)),
                        "np.modf(x, out=(o1, o2))": lambda: np.modf(x, out=(o1, o2))}
            if dtype is np.int64:
                rejected = {k: v for k, v in rejected.items() if "divmod" in k}
            for name, th in rejected.items():
                case = {"class": type(x).__name__, "format": fmt_name(f), "call": name, "dtype": np.dtype(dtype).name, "x": d.tolist()}
                ctx.case("C:multi-output-rejected", case, nontrivial=True)
                v, err = call(th)
                if err is None:
                    msg = f"{name} returned {type(v).__name__} (a ufunc with several results that the library does not compute must raise TypeError)"
                elif not isinstance(err, TypeError):
                    msg = f"{name} raised {type(err).__name__}: {str(err)[:120]} (TypeError expected)"
                elif not (same(x, d) and same(o1, np.zeros_like(d)) and same(o2, np.zeros_like(d)) and type(x) is type(build(d, f))):
                    msg = f"{name} raised TypeError but changed an operand"
                else:
                    continue
                ctx.fail("C", "multi-output-rejected", case, msg, finding=findings.classify(PID, "multi-output-rejected", case, msg))


def agree_tuple(ctx, family, case, spellings, ref_thunk, sparse_members=True):
    """`agree` for spellings that return a tuple of arrays: every member compared with NumPy's, members stay sparse"""
    import sparse

    agree(ctx, family, case, spellings, ref_thunk, must_be_sparse=False)
    ref, ref_err = call(ref_thunk)
    if ref_err is not None:
        return
    for name, th in spellings.items():
        v, e = call(th)
        if e is not None:
            continue  # reported by `agree`
        c = dict(case, spelling=name)
        if not isinstance(v, tuple) or len(v) != len(ref):
            msg = f"{name} returned {type(v).__name__}, NumPy returns a tuple of {len(ref)}"
            ctx.fail("C", family, c, msg, finding=findings.classify(PID, family, c, msg))
        elif sparse_members and not all(isinstance(m, sparse.SparseArray) for m in v):
            msg = f"{name} returned members of type {[type(m).__name__ for m in v]}, not sparse arrays"
            ctx.fail("C", family, c, msg, finding=findings.classify(PID, family, c, msg))


INPLACE = [("iadd", operator.iadd, np.add), ("isub", operator.isub, np.subtract), ("imul", operator.imul, np.multiply)]
INPLACE_MORE = [("itruediv", operator.itruediv, np.true_divide), ("ifloordiv", operator.ifloordiv, np.floor_divide), ("imod", operator.imod, np.remainder),
                ("ipow", operator.ipow, np.power)]


def working_array(t, want, f_orig, cls_orig):
    """is `t` a working array of class `cls_orig` whose value is `want`?  -> None | what is wrong"""
    if type(t) is not cls_orig:
        return f"the target's class is {type(t).__name__}, it was {cls_orig.__name__}"
    probes = [("todense", lambda: t.todense(), lambda: want),
              ("holds", lambda: holds_of(t) if isinstance(holds_of(t), str) else "gcxs", lambda: f_orig if isinstance(f_orig, str) else "gcxs"),
              ("follow-up t * 2", lambda: (t * 2).todense(), lambda: want * 2),
              ("follow-up t + t", lambda: (t + t).todense(), lambda: want + want),
              ("follow-up t[0]", lambda: t[0].todense() if t.ndim > 1 else t[0], lambda: want[0]),
              ("nnz is readable", lambda: np.asarray(0 <= int(t.nnz) <= want.size), lambda: np.asarray(True)),
              ("asformat round trip", lambda: t.asformat("coo").asformat("gcxs" if cls_orig.__name__ == "GCXS" else cls_orig.__name__.lower()).todense(), lambda: want),
              ("copy", lambda: t.copy().todense() if hasattr(t, "copy") else t.todense(), lambda: want)]
    for name, th, ref in probes:
        v, e = call(th)
        if e is not None:
            return f"{name} raised {type(e).__name__}: {str(e)[:100]}"
        r = ref()
        if isinstance(r, str):
            if v != r:
                return f"{name}: the target carries the attributes of {v}, its class says {r}"
        elif not same(v, r):
            return f"{name} gives {np.asarray(dense_of(v)).tolist()!r:.100}, expected {np.asarray(r).tolist()!r:.100}"
    return None


def leg_c_inplace(ctx, rng, stored=None):
    """in-place operators and out= across EVERY ordered pair of formats (COO, GCXS with each compressed axes, DOK): `a op= b`,
    `np.<ufunc>(a, b, out=a)`, `np.<ufunc>(a, b, out=(c,))` with c of every format.  Afterwards the target is the same object, of
    its original class, a working array (todense, follow-up operations, asformat round trip, copy) equal to NumPy's result, the
    other operands are unchanged — or the call raised ValueError/TypeError (then NumPy must not have computed a result that could
    be stored) and the target is unchanged."""
    def bld(dense, f):
        return build(dense, f, stored=stored)
    operand = "stored-fill" if stored is not None else "pruned"
    shapes = [((3, 4), FORMATS_2D)]
    if not ctx.quick or (ctx.seed % 3 == 0 and stored is None):
        shapes.append(((2, 3, 2), FORMATS_3D))
    ops = INPLACE if ctx.quick else INPLACE + INPLACE_MORE
    for shape, formats in shapes:
        d, e = make(rng, shape), make(rng, shape)
        ez = np.where(e == 0, 2.0, np.abs(e))  # for the division-like operators: no zero, no negative base problems
        for fa in formats:
            for fb in formats:
                # ---- a op= b ---------------------------------------------------------------------------------------------------
                for name, opf, uf in ops:
                    e_use = ez if name in ("itruediv", "ifloordiv", "imod", "ipow") else e
                    for partner in ("sparse", "scalar"):
                        if partner == "scalar" and (fb != formats[0] or name in ("iadd", "isub")):
                            continue  # the scalar partner does not depend on fb; x += 2 has a non-zero fill (C07's business)
                        a, b = bld(d, fa), (bld(e_use, fb) if partner == "sparse" else 2.0)
                        pd = e_use if partner == "sparse" else 2.0
                        cls0 = type(a)
                        case = {"op": name, "target": fmt_name(fa), "other": fmt_name(fb) if partner == "sparse" else "scalar", "shape": list(shape), "operand": operand,
                                "x": d.tolist(), "y": np.asarray(pd).tolist()}
                        want, ref_err = call(lambda: opf(d.copy(), pd))
                        r, err = call(lambda: opf(a, b))
                        check_target(ctx, "C:inplace", case, a, r, err, want, ref_err, d, fa, cls0,
                                     others=[(b, e_use, fb)] if partner == "sparse" else [])
                # ---- np.add(a, b, out=a) and out=(c,) ----------------------------------------------------------------------------
                for uf in (np.add, np.multiply):
                    a, b = bld(d, fa), bld(e, fb)
                    cls0 = type(a)
                    case = {"op": f"np.{uf.__name__}(a, b, out=a)", "target": fmt_name(fa), "other": fmt_name(fb), "shape": list(shape), "operand": operand,
                            "x": d.tolist(), "y": e.tolist()}
                    r, err = call(lambda: uf(a, b, out=a))
                    check_target(ctx, "C:out", case, a, r, err, uf(d, e), None, d, fa, cls0, others=[(b, e, fb)])
                    for fc in formats:
                        a, b, c = bld(d, fa), bld(e, fb), bld(np.ones(shape), fc)
                        cls0 = type(c)
                        case = {"op": f"np.{uf.__name__}(a, b, out=(c,))", "a": fmt_name(fa), "b": fmt_name(fb), "target": fmt_name(fc), "shape": list(shape), "operand": operand,
                                "x": d.tolist(), "y": e.tolist()}
                        r, err = call(lambda: uf(a, b, out=(c,)))
                        check_target(ctx, "C:out", case, c, r, err, uf(d, e), None, np.ones(shape), fc, cls0, others=[(a, d, fa), (b, e, fb)])
        # ---- integer power in place: the trial call of the out= path must not depend on leftover memory ---------------------------------
        di = np.abs(d).astype(np.int64)
        ei = (np.abs(e) % 3).astype(np.int64)
        for fa in formats:
            for fb in formats:
                for rep in range(2 if ctx.quick else 6):
                    junk = -np.ones(1 + rep, dtype=np.int64)  # negative leftovers for a later np.empty((1,), int64) to find
                    del junk
                    a, b = bld(di, fa), bld(ei, fb)
                    cls0 = type(a)
                    case = {"op": "ipow", "dtype": "int64", "target": fmt_name(fa), "other": fmt_name(fb), "shape": list(shape), "operand": operand, "x": di.tolist(), "y": ei.tolist()}
                    want, ref_err = call(lambda: operator.ipow(di.copy(), ei))
                    r, err = call(lambda: operator.ipow(a, b))
                    check_target(ctx, "C:inplace", case, a, r, err, want, ref_err, di, fa, cls0, others=[(b, ei, fb)])
        # ---- calls NumPy itself rejects: the target must be left alone -------------------------------------------------------------
        di = d.astype(np.int64)
        for fa in formats:
            for fb in formats[:2] + formats[-1:]:
                a, b = bld(di, fa), bld(e + 0.5, fb)
                cls0 = type(a)
                case = {"op": "int64 target += float64", "target": fmt_name(fa), "other": fmt_name(fb), "shape": list(shape), "operand": operand, "x": di.tolist(), "y": (e + 0.5).tolist()}
                want, ref_err = call(lambda: operator.iadd(di.copy(), e + 0.5))
                r, err = call(lambda: operator.iadd(a, b))
                check_target(ctx, "C:inplace-rejected", case, a, r, err, want, ref_err, di, fa, cls0, others=[(b, e + 0.5, fb)])
                a, c = bld(d, fa), bld(np.ones(shape[:-1] + (shape[-1] + 1,)), fb)
                cls0 = type(c)
                case = {"op": "np.add(a, a, out=(c,)) with c of another shape", "a": fmt_name(fa), "target": fmt_name(fb), "shape": list(shape), "operand": operand, "x": d.tolist()}
                want, ref_err = call(lambda: np.add(d, d, out=np.ones(shape[:-1] + (shape[-1] + 1,))))
                r, err = call(lambda: np.add(a, a, out=(c,)))
                check_target(ctx, "C:inplace-rejected", case, c, r, err, want, ref_err, np.ones(shape[:-1] + (shape[-1] + 1,)), fb, cls0, others=[(a, d, fa)])


def check_target(ctx, family, case, target, returned, err, want, ref_err, before, f_orig, cls_orig, others=()):
    ctx.case(family, case, nontrivial=True)

    def fail(msg):
        ctx.fail("C", family.split(":", 1)[1], case, msg, finding=findings.classify(PID, family, case, msg))
    if ref_err is not None:
        # NumPy rejects the call: a clean rejection, target untouched
        if err is None:
            return fail(f"NumPy raises {type(ref_err).__name__} but the call returned")
        if not isinstance(err, ValueError | TypeError):
            return fail(f"NumPy raises {type(ref_err).__name__}; the call raised {type(err).__name__}: {str(err)[:120]}")
        bad = working_array(target, before, f_orig, cls_orig)
        if bad:
            return fail(f"the call raised {type(err).__name__} and left the target changed/broken: {bad}")
    elif err is not None:
        if not isinstance(err, ValueError | TypeError):
            return fail(f"raised {type(err).__name__}: {str(err)[:140]} (NumPy computes; only ValueError/TypeError is a clean refusal)")
        bad = working_array(target, before, f_orig, cls_orig)
        if bad:
            return fail(f"the call raised {type(err).__name__} and left the target changed/broken: {bad}")
        return fail(f"raised {type(err).__name__}: {str(err)[:140]} while NumPy computes the result and it is storable in the target's format")
    else:
        if returned is not target:
            return fail(f"the call returned {type(returned).__name__} object {'equal to' if same(returned, want) else 'different from'} NumPy's result instead of the target itself")
        bad = working_array(target, want, f_orig, cls_orig)
        if bad:
            return fail(f"after the call: {bad}")
    for o, od, of in others:
        bad = working_array(o, od, of, type(build(od, of)))
        if bad:
            return fail(f"another operand changed: {bad}")


# values for NumPy-style probes that can be replayed on the real code
PROBE_VALUES = {"axis": 0, "keepdims": True, "dtype": np.float64, "ddof": 1, "correction": 1, "decimals": 1, "order": "C", "offset": 1, "k": 1,
                "shift": 1, "indices": np.array([1, 0]), "axes": (1, 0), "a_min": -1, "a_max": 2, "min": -1, "max": 2, "shape": None,
                "source": 0, "destination": 1, "axis1": 0, "axis2": 1, "descending": True}


def leg_c_numpy_style(ctx, violations, table):
    """NumPy-style calls np.f(x, …) — positional and keyword — against NumPy on the dense operand and against the sibling
    spelling.  A probe the model lists as a violation is expected to fail (finding F-nep18-signature); every failure must be such
    a probe, and every listed probe that can be instantiated must really fail (TypeError) — else the model is wrong."""
    sigs = {p: s for p, _, s in table["numpy_sigs"]}
    d = np.array([[1.0, 0.0, 2.0, 0.0], [0.0, 3.0, 0.0, 1.0], [2.0, 0.0, 0.0, 4.0], [0.0, 1.0, 5.0, 0.0]])
    replayed = 0
    offered = {}
    for cn in ("COO", "GCXS"):
        x = as_format(d, cn)
        probes = ctx.driver.run([["c17_probes", cn]])[0]["ok"]
        bad = {(p["pub"], p["param"], json.dumps(p["way"], sort_keys=True)) for p in violations[cn]}
        for pi, p in enumerate(probes):
            pub, param, way = p["pub"], p["param"], p["way"]
            if way == {"pos": 0}:
                continue
            if ctx.quick and cn != "COO" and p["result"] in ("accepted", "catchAll") and (pi + ctx.seed) % 3:
                continue  # quick tier: the second format replays every listed probe and a third of the accepted ones
            s = sigs[pub]
            f = getattr(np, pub.split(".", 1)[1])
            positional = s["posonly"] + s["pos"]
            # build the argument list up to this parameter: NumPy's own defaults for the ones before it, a concrete value for it
            vals = dict(PROBE_VALUES)
            if param not in vals or vals[param] is None:
                if param == "shape":
                    vals["shape"] = (d.size,) if pub.endswith("reshape") else d.shape
                else:
                    continue
            npsig = inspect.signature(f)
            if "pos" in way:
                i = way["pos"]
                args = []
                ok = True
                for q in positional[1:i]:
                    dflt = npsig.parameters[q].default
                    if dflt is inspect.Parameter.empty or "no value" in repr(dflt):
                        if q in vals and vals[q] is not None:
                            args.append(vals[q])
                        else:
                            ok = False
                            break
                    else:
                        args.append(dflt)
                if not ok:
                    continue
                args.append(vals[param])
                th_s = lambda: f(x, *args)  # noqa: E731
                th_d = lambda: f(d, *args)  # noqa: E731
                desc = f"{pub}(x, {', '.join(repr(a) for a in args)})"
            else:
                req = []
                for q in positional[1:]:
                    if npsig.parameters[q].default is inspect.Parameter.empty and q != param:
                        if q in vals and vals[q] is not None:
                            req.append(vals[q])
                        else:
                            req = None
                            break
                    elif npsig.parameters[q].default is inspect.Parameter.empty:
                        break
                    else:
                        break
                if req is None:
                    continue
                kw = {way["kw"]: vals[param]}
                th_s = lambda: f(x, *req, **kw)  # noqa: E731
                th_d = lambda: f(d, *req, **kw)  # noqa: E731
                desc = f"{pub}(x, {', '.join(repr(a) for a in req)}{', ' if req else ''}{way['kw']}={vals[param]!r})"
            ref, ref_err = call(th_d)
            if ref_err is not None:
                continue  # not a valid NumPy call on this operand: outside the grammar
            # is the operation offered for this format at all?  (plain call with the required arguments only; a format that lacks
            # the operation is other properties' business)
            base_req = [vals[q] for q in positional[1:] if npsig.parameters[q].default is inspect.Parameter.empty and q in vals and vals[q] is not None]
            if (pub, cn) not in offered:
                _, base_err = call(lambda: f(x, *base_req))
                offered[(pub, cn)] = base_err is None
            if not offered[(pub, cn)]:
                continue
            got, err = call(th_s)
            if pub.endswith("empty_like") and err is None:
                got, ref = np.asarray(dense_of(got)).shape, np.asarray(ref).shape  # contents of empty_like are arbitrary
            replayed += 1
            key = (pub, param, json.dumps(way, sort_keys=True))
            listed = key in bad
            case = {"class": cn, "call": desc, "pub": pub, "param": param, "way": way, "model": p["result"], "nep18_probe": True}
            ctx.case(f"C:numpy-style:{'listed' if listed else 'accepted'}", case, nontrivial=True)
            fails = err is not None or not (got == ref if isinstance(ref, tuple) and pub.endswith("empty_like") else same(got, ref))
            if fails:
                msg = (f"{desc} raised {type(err).__name__}: {str(err)[:120]}" if err is not None else
                       f"{desc} differs from NumPy: got {np.asarray(dense_of(got)).tolist()!r:.120} numpy {np.asarray(ref).tolist()!r:.120}")
                case["listed_by_model"] = listed
                case["binding_error"] = isinstance(err, TypeError) and ("argument" in str(err) or "positional" in str(err))
                ctx.fail("C", "numpy-style", case, msg, finding=findings.classify(PID, "numpy-style", case, msg))
            elif listed and p["result"] == "rejected":
                ctx.fail("A", "model:probe-replay", case, f"model says {desc} is rejected by argument binding, the real call computed NumPy's answer")
    ctx.count("numpy_style_calls", replayed)


def leg_c_unimplemented(ctx, table):
    """a NumPy function the library does not implement raises TypeError; nothing is densified"""
    import sparse

    d = np.array([[1.0, 0.0, 2.0], [0.0, 3.0, 0.0]])
    funcs = dict(numpy_dispatchables())
    n = 0
    for cn in CLASSES:
        x = as_format(d, cn)
        qs = [[getattr(f, "__module__", "numpy").split(".")[1:], f.__name__, 1, []] for f in funcs.values()]
        model = ctx.driver.run([["c17_nep18", cn, qs]])[0]["ok"]
        for (pub, f), m in zip(funcs.items(), model):
            if m != "notimplemented":
                continue
            r, e = call(lambda: f(x))
            case = {"class": cn, "func": pub}
            ctx.case("C:unimplemented", case, nontrivial=True)
            n += 1
            if e is None:
                msg = f"{pub}(x) returned {type(r).__name__} although the library has no implementation" + \
                      (" (densified)" if isinstance(r, np.ndarray) else "")
                ctx.fail("C", "unimplemented", case, msg, finding=findings.classify(PID, "unimplemented", case, msg))
            elif not isinstance(e, TypeError):
                # functions written in terms of other dispatched functions may fail later with their own error; densifying is what is forbidden
                if isinstance(e, RuntimeError) and "densify" in str(e).lower():
                    continue
                msg = f"{pub}(x) raised {type(e).__name__}: {str(e)[:120]} (TypeError expected)"
                ctx.fail("C", "unimplemented", case, msg, finding=findings.classify(PID, "unimplemented", case, msg))
    ctx.count("unimplemented_checked", n)
    _ = sparse


def replay_witnesses(ctx, reports):
    """np.var(x, ddof=1) and sparse.clip(x, …, out=o): active in the model <=> failing on the code"""
    import sparse

    d = np.array([[1.0, 0.0, 2.0], [0.0, 3.0, 0.0]])
    x = as_format(d, "COO")
    r, e = call(lambda: np.var(x, axis=0, ddof=1))
    fails = e is not None or not same(r, np.var(d, axis=0, ddof=1))
    active = reports["COO"]["witnessActive"]
    ctx.case("A:witness", {"witness": "np.var(x, axis=0, ddof=1)", "model_active": active, "code_fails": fails}, nontrivial=True)
    if active != fails:
        ctx.fail("A", "witness:np.var(ddof)", {"model_active": active}, f"model says violation={active}, the real call {'fails' if fails else 'agrees with NumPy'}: {e!r}")
    o = as_format(np.zeros_like(d), "COO")
    r, e = call(lambda: sparse.clip(x, -1, 1, out=o))
    dropped = e is None and not same(o, np.clip(d, -1, 1))
    listed = ["clip", "out"] in reports["COO"]["dropped"]
    ctx.case("A:witness", {"witness": "sparse.clip(x, -1, 1, out=o)", "model_listed": listed, "code_drops": dropped}, nontrivial=True)
    if listed != dropped:
        ctx.fail("A", "witness:clip(out)", {"model_listed": listed}, f"model says dropped={listed}, real call leaves out untouched={dropped}")
    ctx.notes["witness_replay"] = {"np.var(ddof)": "fails" if fails else "ok", "sparse.clip(out)": "dropped" if dropped else "honoured"}
    # the dropped `out` as a leg-C case (the spellings disagree on what `out` holds afterwards)
    for name, th in (("sparse.clip(out=)", lambda o2: sparse.clip(x, -1, 1, out=o2)), ("np.clip(out=)", lambda o2: np.clip(x, -1, 1, out=o2)),
                     ("method(out=)", lambda o2: x.clip(-1, 1, out=o2))):
        o2 = as_format(np.zeros_like(d), "COO")
        r, e = call(lambda: th(o2))
        case = {"op": "clip", "spelling": name, "param": "out"}
        ctx.case("C:out", case, nontrivial=True)
        if e is not None or not same(o2, np.clip(d, -1, 1)) or not same(r, np.clip(d, -1, 1)):
            msg = f"{name}: out holds {dense_of(o2).tolist()!r:.80} after the call, NumPy writes {np.clip(d, -1, 1).tolist()!r:.80}" if e is None else f"{name} raised {e!r}"
            ctx.fail("C", "out", case, msg, finding=findings.classify(PID, "out", case, msg))


def run(ctx):
    ctx.trusted = TRUSTED
    ctx.assumptions = ["NumPy on the densified operands is the specification", "element values are small exact numbers; zero fill (fill values are C07's)",
                       "the NumPy-style probes are instantiated with one concrete value per parameter name (axis=0, keepdims=True, ddof=1, …)"]
    core.prove(ctx, PID, uses=USES)
    outs = ctx.driver.run([["c17_table"]] + [["c17_report", c] for c in CLASSES])
    table = outs[0]["ok"]
    reports = {c: o["ok"] for c, o in zip(CLASSES, outs[1:])}
    ctx.notes["spellings_agree"] = {c: {k: r[k] for k in ("fullOk", "partialOk", "coreBad", "kwBad", "dropped", "kwIncons", "ufuncOk", "probes", "witnessActive", "indexesFaithful")}
                                    | {"nep18_violations": len(r["violations"])} for c, r in reports.items()}
    ctx.notes["partial"] = {"spellings_agree": "ExcludedNep18 (argument binding at the by-name target)"
                            if not all(r["fullOk"] for r in reports.values()) else "none: the full statement holds on this tree"}
    ctx.notes["table"] = {"entries": len(table["entries"]), "namespace": len(table["namespace"]), "numpy_functions": len(table["numpy_functions"]),
                          "numpy_sigs": len(table["numpy_sigs"]), "operators": len(table["operators"])}
    for c, r in reports.items():
        if not r["partialOk"]:
            ctx.notes.setdefault("suspects", {})[c] = {k: r[k] for k in ("coreBad", "kwBad", "dropped", "kwIncons", "ufuncOk")}
    rng = gen.rng_for(ctx.seed, PID)
    t1_validate(ctx, table)
    leg_a_lookup(ctx, table)
    leg_a_outer(ctx)
    leg_a_out(ctx, table)
    violations = leg_a_probes(ctx, table)
    replay_witnesses(ctx, reports)
    leg_c(ctx, rng, 2 if ctx.quick else 120)
    leg_c_numpy_style(ctx, violations, table)
    leg_c_unimplemented(ctx, table)
    ctx.notes["stored_fill_routes"] = {k: {"built": v[0], "carry_a_stored_fill_value": v[1]} for k, v in sorted(STORED_ROUTES.items())}
    ctx.cov["rule"] = ("T1: every row of the generated dispatch table against introspection and recorded forwarding calls; leg A: the lookup model "
                       "against __array_function__ for every array-function-dispatched NumPy function x {COO,GCXS,DOK} x argument shapes "
                       "(1,0),(2,0),(1,1), the ufunc routing, every NumPy-parameter probe against Signature.bind; leg C: every operation "
                       "with more than one spelling x spellings (method, sparse.f, np.f, x.__array_namespace__().f, ufunc, ufunc.reduce, "
                       "operator, reflected operator, special method) x {COO,GCXS,DOK where offered} x partner kinds (sparse, scalar, ndarray, "
                       "scipy on the right) on random 3x4 operands, NumPy-style positional/keyword calls for every probe that can be "
                       "instantiated, and every unimplemented NumPy function (TypeError, nothing densified); non-trivial = a stored element "
                       "or an error path; distinct by content hash")


def replay(ctx, path):
    obj = json.loads(Path(path).read_text())
    print(json.dumps({"replaying": obj.get("failure", {}).get("family"), "detail": obj.get("failure", {}).get("detail"),
                      "case": {k: v for k, v in (obj.get("failure", {}).get("case") or {}).items() if k not in ("x", "y")}}, indent=1, default=str))
    return 0


_ = impl

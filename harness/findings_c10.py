"""Regions of the known findings of property C10.

classify(name, case, msg): `name` is "<op>:<aspect>" (aspect in error/shape/values/counts/indices/...).
`case` is the replayable case written by harness/c10.py; for the findings whose region is a Lean
predicate the check has already asked the compiled model and stored the answer under case["model"]:
    {"predicted": <what the model of the code as it stands answers>, "excluded": {<Excluded…>: bool}}
A failing case belongs to such a finding only if the implementation's wrong answer EQUALS the model's
prediction and the Lean `Excluded…` predicate holds on it.  The shape findings have no Lean model; their
region is the exact wrong shape computed by a mirror of the faulty shape logic.
"""
from __future__ import annotations


def _stores_fill(case) -> bool:
    return any(v == case["fill"] for v in case["data"])


def buggy_argminmax_shape(shape, axis, keepdims):
    """result shape of `_arg_minmax_common` as it stands (None = it raises)"""
    nd = len(shape)
    if axis is None:
        return tuple([1] * nd) if keepdims else ()
    if not -nd <= axis < nd:
        return None
    if nd == 1:
        if axis != 0:
            return None  # axis=-1 on a 1-d array: reshape to (n, 1.0) raises
        res = [1, 1]
    else:
        rest = list(shape)
        rest.pop(axis)
        res = [1, *rest]
        tr = list(range(len(res)))
        tr.insert(axis, tr.pop(0))  # list.insert with a negative axis inserts one place too early
        res = [res[t] for t in tr]
    return tuple(res) if keepdims else tuple(d for d in res if d != 1)


def numpy_argminmax_shape(shape, axis, keepdims):
    nd = len(shape)
    if axis is None:
        return tuple([1] * nd) if keepdims else ()
    a = axis % nd
    return tuple(1 if i == a else d for i, d in enumerate(shape)) if keepdims else tuple(d for i, d in enumerate(shape) if i != a)


def classify(name, case, msg):
    op, _, aspect = name.partition(":")
    kw = case.get("kw", {})
    shape = tuple(case["shape"])
    model = case.get("model") or {}
    obs = case.get("observed")

    # ---- F-argminmax-shape: the three places where `_arg_minmax_common` gets the result shape wrong
    if op in ("argmax", "argmin"):
        axis, keepdims = kw.get("axis"), bool(kw.get("keepdims"))
        nd = len(shape)
        if axis is None or -nd <= axis < nd:
            bug = buggy_argminmax_shape(shape, axis, keepdims)
            ref = numpy_argminmax_shape(shape, axis, keepdims)
            if aspect == "shape" and bug is not None and bug != ref and obs == list(bug):
                return "F-argminmax-shape"
            if aspect == "error" and bug is None and nd == 1 and axis == -1 and "shape must be an non-negative integer" in msg:
                return "F-argminmax-shape"

    # ---- F-sort-len1 / F-sort-empty-axis
    if op == "sort":
        nd = len(shape)
        axis = kw.get("axis", -1)
        if aspect == "shape" and shape == (1,) and obs == []:
            return "F-sort-len1"
        if aspect == "error" and -nd <= axis < nd and shape[axis] == 0 and "cannot convert float NaN to integer" in msg and not kw.get("stable"):
            return "F-sort-empty-axis"

    # ---- findings whose region is a Lean predicate evaluated by the model driver.  `variant` says which of the
    # proposed fixes the code under test already has (decided by replaying the witnesses): a region only counts
    # while its defect is present (hypotheses h1/h2 of `unique_counts_any_variant`).
    exc = model.get("excluded", {})
    var = model.get("variant", {})
    stored_fill_active = not var.get("prune", False) and _stores_fill(case)
    if model and obs is not None and obs == model.get("predicted"):
        if op in ("argmax", "argmin") and aspect == "values" and exc.get("ExcludedArgStoredFill") and stored_fill_active:
            return "F-stored-fill"
        if op in ("unique_values", "unique_counts") and aspect == "values" and exc.get("ExcludedStoredFill") and stored_fill_active:
            return "F-stored-fill"
        if op == "unique_counts" and aspect == "values" and exc.get("ExcludedTwoBelow") and not var.get("gather", False):
            return "F-unique-counts-perm"
        if op in ("nonzero", "argwhere", "where") and aspect == "indices" and exc.get("StoresZero") and case["fill"] == 0 and stored_fill_active:
            return "F-stored-fill"
    return None

"""C06 — every returned array is in canonical, self-consistent form."""
from __future__ import annotations

import warnings

import numpy as np

import core
import findings
import gen
import impl

PID = "C06"
TRUSTED = [
    "Lean 4 kernel; axioms propext, Classical.choice, Quot.sound only (audited per theorem each run)",
    "tie T1: Gen.promiseSites (every constructor call with sorted=/has_duplicates= promises or a ready-made GCXS triple) regenerated from the source each run; "
    "promise_sites_covered is re-decided over the whole table",
    "tie T2: the implementation-side canonicity checker (harness/impl.py) is the executable twin of the Lean predicates and is compared with them on generated "
    "(including deliberately broken) coordinate lists and CSR triples each run",
    "producers without a Lean model are covered by the checker on random programs only",
    "program theorems (program_canonical / program_refines / program_errors, Props/Program.lean) are about evalModel / evalSpec of Model/Expr.lean; "
    "leg expr ties evalModel to the code at representation level (shape, coords, data, fill, error class) and evalSpec to NumPy on random programs of all "
    "19 constructor kinds; the validation in front of the kernel models (axis normalisation through the generated normalize_axis, squeeze's own axis rule, "
    "fill-value checks, compressed_axes checks) is hand-written after the code and covered by that leg only",
    "program leg: values are kept below 1e6 in magnitude so that the model's unbounded integers and int64 agree",
]


def leg_a(ctx, rng, n):
    """checker (Python) vs Lean predicate"""
    import sparse

    reqs, metas = [], []
    for _ in range(n):
        shp = gen.shape(rng, 1, 3, extents=[1, 2, 3, 4])
        k = int(rng.integers(0, 7))
        mode = str(rng.choice(["sorted", "unsorted", "dup", "oob"]))
        coords = np.array([[int(rng.integers(0, d)) for d in shp] for _ in range(k)], dtype=np.int64).reshape(k, len(shp))
        if mode in ("sorted", "oob") and k:
            lin = np.ravel_multi_index(tuple(coords.T), shp)
            _, first = np.unique(lin, return_index=True)
            coords = coords[np.sort(first)]
            coords = coords[np.argsort(np.ravel_multi_index(tuple(coords.T), shp), kind="stable")]
        if mode == "oob" and len(coords):
            coords[int(rng.integers(len(coords))), int(rng.integers(len(shp)))] = shp[0] + 5
        data = rng.integers(1, 4, size=len(coords))
        x = sparse.COO(np.zeros((len(shp), 0), dtype=np.int64), np.zeros(0, dtype=np.int64), shape=shp)
        x.coords, x.data = coords.T.copy(), data  # bypass the constructor on purpose
        want = impl.canonical_problem(x) is None
        reqs.append(["coo_canonical", impl.raw_json(shp, coords.tolist(), data.tolist(), 0)])
        metas.append(({"kind": "coo", "mode": mode, "shape": list(shp), "coords": coords.tolist()}, want))
        # CSR triple
        rows, cols = int(rng.integers(1, 4)), int(rng.integers(1, 5))
        counts = rng.integers(0, cols + 1, size=rows)
        indptr = np.concatenate([[0], np.cumsum(counts)])
        indices = np.concatenate([np.sort(rng.choice(cols, size=c, replace=False)) for c in counts]).astype(np.int64) if counts.sum() else np.zeros(0, dtype=np.int64)
        g = sparse.GCXS((np.ones(len(indices), dtype=np.int64), indices.copy(), indptr.copy()), shape=(rows, cols), compressed_axes=(0,))
        mode2 = str(rng.choice(["ok", "ok", "rev", "ptr", "col"]))
        if mode2 == "rev" and len(indices) > 1:
            indices = indices[::-1].copy()
        if mode2 == "ptr" and rows > 1:
            indptr[1] = indptr[-1] + 1
        if mode2 == "col" and len(indices):
            indices[-1] = cols
        g.indices, g.indptr = indices, indptr  # bypass the constructor on purpose (it rejects the damaged triples)
        want2 = impl.canonical_problem(g) is None
        reqs.append(["gcxs_canonical", indptr.tolist(), indices.tolist(), rows, cols, int(len(indices))])
        metas.append(({"kind": "gcxs", "mode": mode2, "indptr": indptr.tolist(), "indices": indices.tolist(), "shape": [rows, cols]}, want2))
    outs = ctx.driver.run(reqs)
    nbad = 0
    for (case, want), out in zip(metas, outs):
        ctx.case(f"A:checker:{case['kind']}", case)
        if not want:
            nbad += 1
        if out.get("ok") != want:
            ctx.fail("A", "checker-vs-predicate", case, f"Lean predicate {out}, Python checker {want}")
    ctx.notes["checker_cases_noncanonical"] = nbad


# ---------------------------------------------------------------------------------------------------
# leg C: random programs; every produced array is checked
# ---------------------------------------------------------------------------------------------------

def step(rng, pool):
    """pick an operation applicable to arrays in the pool; returns (description, result)"""
    import sparse

    x = pool[int(rng.integers(len(pool)))]
    nd = x.ndim
    op = str(rng.choice(["ew1", "ew2", "index", "index", "reduce", "transpose", "reshape", "concat", "stack", "dot", "convert", "sort", "roll", "flip", "pad",
                         "bcast", "where", "astype", "triu", "diagonal", "expand", "squeeze", "round", "kron", "tensordot", "unique", "argmax", "nonzero", "dok_assign",
                         "create", "create", "like", "einsum", "einsum", "diagonalize", "tril", "moveaxis", "take", "matmul", "clip", "isnan", "mean", "cumulative"]))
    coo = x.asformat("coo") if not isinstance(x, sparse.COO) else x
    if op == "dok_assign" and nd and x.size:
        # assigning a value that becomes the fill value only after the cast to the array's dtype must not leave a stored entry
        dk = x.asformat("dok")
        key = tuple(int(rng.integers(0, e)) for e in dk.shape)
        v = float(rng.choice([0.5, -0.25, 2.0])) + (float(dk.fill_value) if np.dtype(dk.dtype).kind in "iu" else 0.0) * 0
        if np.dtype(dk.dtype).kind in "iu":
            v = float(dk.fill_value) + float(rng.choice([0.4, -0.3, 2.0]))
        dk[key] = v
        return f"dok[{key}]={v}; tocoo", dk.asformat(str(rng.choice(["coo", "gcxs", "dok"])))
    if op == "create":
        # creation functions are operations too: their results enter the pool and every later step
        fmt = str(rng.choice(["coo", "gcxs", "dok"]))
        which = str(rng.choice(["eye", "eye", "full", "zeros", "ones", "random", "random-nnz", "asarray"]))
        N, M = int(rng.integers(0, 6)), int(rng.integers(0, 6))
        if which == "eye":
            k = int(rng.integers(-6, 7))
            return f"eye({N},{M},k={k},format={fmt})", sparse.eye(N, M, k=k, format=fmt)
        shp = (N, M) if rng.random() < 0.6 else (N, 2, M)
        if which == "full":
            v = int(rng.choice([0, 3, -1]))
            return f"full({shp},{v},format={fmt})", sparse.full(shp, v, format=fmt)
        if which in ("zeros", "ones"):
            return f"{which}({shp},format={fmt})", getattr(sparse, which)(shp, format=fmt)
        if which == "random":
            dens = float(rng.choice([0.0, 0.1, 0.5, 1.0]))
            return f"random({shp},{dens},format={fmt})", sparse.random(shp, density=dens, format=fmt, random_state=int(rng.integers(1 << 30)),
                                                                         fill_value=int(rng.choice([0, 0, 2])))
        if which == "random-nnz":
            size = int(np.prod(shp))
            k = int(rng.integers(0, size + 1))
            return f"random({shp},nnz={k},format={fmt})", sparse.random(shp, nnz=k, format=fmt, random_state=int(rng.integers(1 << 30)))
        return f"asarray(dense,format={fmt})", sparse.asarray(x.todense(), format=fmt)
    if op == "einsum" and 1 <= nd <= 3 and x.fill_value == 0:
        # sums over removed indices that cancel, traces, transposes, products
        letters = "ijk"[:nd]
        keep = "".join(c for c in letters if rng.random() < 0.5)
        if rng.random() < 0.5:
            keep = keep[::-1]
        which = int(rng.integers(4))
        if which == 3 and not isinstance(x, sparse.DOK):
            # every sum over the last index cancels exactly
            y = sparse.concatenate([x, -x], axis=nd - 1)
            sub = f"{letters}->{letters[:-1]}" if nd > 1 else f"{letters},{letters}->{letters}"
            r = sparse.einsum(sub, *([y] if nd > 1 else [x, x - x]))
        elif which == 0 or which == 3:
            sub = f"{letters}->{keep}"
            r = sparse.einsum(sub, x)
        elif which == 1:
            sub = f"{letters},{letters}->{keep}"
            r = sparse.einsum(sub, x, -x if rng.random() < 0.5 else x)
        else:
            sub = f"{letters},{letters[::-1]}->{keep}" if all(e == x.shape[0] for e in x.shape) else f"{letters}->{keep}"
            r = sparse.einsum(sub, *([x, x] if "," in sub else [x]))
        return f"einsum({sub})", (r if isinstance(r, sparse.SparseArray) else None)
    if op == "like":
        f = str(rng.choice(["zeros_like", "ones_like", "full_like", "empty_like"]))
        if f == "full_like":
            return "full_like(x,3)", sparse.full_like(x, 3)
        return f"{f}(x)", getattr(sparse, f)(x)
    if op == "diagonalize" and nd >= 1 and x.fill_value == 0:
        return "diagonalize(coo)", sparse.diagonalize(coo, axis=int(rng.integers(0, nd)))
    if op == "tril" and nd >= 2 and x.fill_value == 0:
        return "tril(coo,k)", sparse.tril(coo, int(rng.integers(-2, 3)))
    if op == "moveaxis" and nd >= 2 and not isinstance(x, sparse.DOK):
        a, b = (int(v) for v in rng.integers(-nd, nd, size=2))
        return f"moveaxis(x,{a},{b})", sparse.moveaxis(x, a, b)
    if op == "take" and nd and x.size:
        ax = int(rng.integers(0, nd))
        ind = rng.integers(0, x.shape[ax], size=int(rng.integers(1, 5)))
        return f"take(coo,{ind.tolist()},axis={ax})", sparse.take(coo, ind, axis=ax)
    if op == "matmul" and nd >= 2 and x.fill_value == 0 and not isinstance(x, sparse.DOK):
        return "matmul(x, x.mT)", sparse.matmul(x, x.mT)
    if op == "clip":
        return "clip(x,-1,2)", sparse.clip(x, -1, 2)
    if op == "isnan":
        return "isnan(x/0-ish)", sparse.isnan(x.astype(np.float64))
    if op == "mean" and nd and x.size and not isinstance(x, sparse.DOK):
        return "x.mean(axis=0)", x.mean(axis=0)
    if op == "cumulative":
        return "x*0", x * 0
    if op == "ew1":
        f = rng.choice([np.negative, np.abs, np.sign, np.square, np.sin, np.expm1])
        return f"{f.__name__}(x)", f(x)
    if op == "ew2":
        y = next((p for p in pool if p.shape == x.shape and p is not x), x)
        f = rng.choice([np.add, np.multiply, np.subtract, np.maximum, np.minimum])
        try:
            return f"{f.__name__}(x,y)", f(x, y)
        except ValueError:
            return f"{f.__name__}(x,x)", f(x, x)
    if op == "index" and nd and rng.random() < 0.4:
        # an index array or boolean mask on one axis, slices (negative steps too) on the others: the sorted= promise of getitem
        ax = int(rng.integers(0, nd))
        e = x.shape[ax]
        if e:
            arr = rng.integers(-e, e, size=int(rng.integers(1, 5))) if rng.random() < 0.7 else (rng.random(e) < 0.6)
            idx = tuple(arr if i == ax else (slice(None, None, -1) if rng.random() < 0.5 else gen.rand_slice(rng, d)) for i, d in enumerate(x.shape))
            return f"x[{'mask' if arr.dtype == bool else arr.tolist()}@{ax}, slices]", x[idx]
    if op == "index" and nd:
        idx = tuple(gen.rand_slice(rng, d) if rng.random() < 0.7 else (int(rng.integers(0, d)) if d else slice(None)) for d in x.shape[: int(rng.integers(1, nd + 1))])
        return f"x[{idx}]", x[idx]
    if op == "reduce" and nd and not isinstance(x, sparse.DOK):
        ax = tuple(int(a) for a in rng.permutation(nd)[: int(rng.integers(1, nd + 1))])
        f = str(rng.choice(["sum", "max", "min", "prod", "any"]))
        return f"x.{f}(axis={ax})", getattr(x, f)(axis=ax, keepdims=bool(rng.random() < 0.5))
    if op == "transpose" and nd and not isinstance(x, sparse.DOK):
        p = tuple(int(a) for a in rng.permutation(nd))
        return f"x.transpose({p})", x.transpose(p)
    if op == "reshape" and x.size and not isinstance(x, sparse.DOK):
        return "x.reshape(-1)", x.reshape((-1,))
    if op in ("concat", "stack") and nd:
        ax = int(rng.integers(0, nd))
        f = sparse.concatenate if op == "concat" else sparse.stack
        return f"{op}([x,x],{ax})", f([x, x], axis=ax)
    if op == "dot" and nd in (1, 2) and x.fill_value == 0 and not isinstance(x, sparse.DOK):
        return "x @ x.T", x @ x.T
    if op == "tensordot" and nd >= 1 and x.fill_value == 0 and not isinstance(x, sparse.DOK):
        return "tensordot(x,x,axes=([0],[0]))", sparse.tensordot(x, x, axes=([0], [0]))
    if op == "kron" and nd <= 2 and x.fill_value == 0 and x.size <= 36 and not isinstance(x, sparse.DOK):
        return "kron(x,x)", sparse.kron(x, x)
    if op == "convert":
        f = str(rng.choice(["coo", "gcxs", "dok"]))
        if f == "dok" and nd == 0:
            f = "coo"
        return f"x.asformat({f})", x.asformat(f)
    if op == "sort" and nd:
        return "sort(coo)", sparse.sort(coo, axis=int(rng.integers(-nd, nd)))
    if op == "roll" and nd and x.size:
        return "roll(coo,1,0)", sparse.roll(coo, int(rng.integers(-3, 4)), axis=int(rng.integers(0, nd)))
    if op == "flip" and nd:
        return "flip(x)", sparse.flip(x)
    if op == "pad" and nd:
        return "pad(x,1)", sparse.pad(x, 1, constant_values=x.fill_value)
    if op == "bcast":
        if rng.random() < 0.5:
            # stretched axes forming a run between kept axes: the sorted= promise of broadcast_to depends on the pattern
            pos = int(rng.integers(0, nd + 1))
            y = sparse.expand_dims(sparse.expand_dims(coo, axis=pos), axis=pos)
            tgt = y.shape[:pos] + (int(rng.integers(1, 4)), int(rng.integers(1, 4))) + y.shape[pos + 2:]
            return f"broadcast_to(expand_dims^2(coo,{pos}),{tgt})", sparse.broadcast_to(y, tgt)
        return "broadcast_to(coo,(2,)+shape)", sparse.broadcast_to(coo, (2,) + coo.shape)
    if op == "where":
        return "where(x>0,x,fill)", sparse.where(coo > 0, coo, coo.fill_value)
    if op == "astype":
        return "x.astype(float)", x.astype(np.float64)
    if op == "triu" and nd >= 2 and x.fill_value == 0:
        return "triu(coo,1)", sparse.triu(coo, int(rng.integers(-2, 3)))
    if op == "diagonal" and nd >= 2 and x.shape[0] == x.shape[1]:
        return "diagonal(coo)", sparse.diagonal(coo, offset=int(rng.integers(-2, 3)))
    if op == "expand":
        return "expand_dims(x,0)", sparse.expand_dims(x, axis=0)
    if op == "squeeze" and isinstance(x, sparse.COO):
        return "x.squeeze()", x.squeeze()
    if op == "round":
        return "x.round(1)", x.round(1)
    if op == "unique" and nd and x.size:
        return "unique_values(coo)", sparse.asarray(sparse.unique_values(coo.flatten() if nd != 1 else coo))
    if op == "argmax" and nd and x.size:
        return "argmax(coo,axis=0)", sparse.argmax(coo, axis=0)
    if op == "nonzero" and nd and x.fill_value == 0:
        nz = coo.nonzero()
        return "nonzero(coo)", sparse.asarray(np.asarray(nz[0]))
    return None, None


def leg_c(ctx, rng, n):
    import sparse

    for it in range(n):
        pool, descs = [], []
        for _ in range(3):
            shp = gen.shape(rng, 1, 3, extents=[1, 2, 2, 3, 3, 4, 5], max_size=80)
            fill = int(rng.choice([0, 0, 0, 2]))
            d = gen.dense(rng, shp, fill, density=float(rng.choice([0.15, 0.4, 0.7, 1.0])))
            r = rng.random()
            if r < 0.3:
                d = d.astype(np.float64) / 2
            elif r < 0.42:
                # a NaN (or infinite) fill value, real or complex: "equal to the fill value" needs NaN == NaN there
                fill = [float("nan"), float("inf"), complex("nan+0j")][int(rng.integers(3))]
                dt = np.complex128 if isinstance(fill, complex) else np.float64
                d = np.where(rng.random(size=shp) < 0.5, np.asarray(fill, dtype=dt), d.astype(dt))
            x, fd = gen.to_format(rng, d, None, fill)
            pool.append(x); descs.append({"format": fd, "dense": np.asarray(d).astype(str).tolist() if np.asarray(d).dtype.kind in "fc" else d.tolist(), "fill": repr(fill)})
        trace = []
        for depth in range(int(rng.integers(1, 5))):
            with warnings.catch_warnings():
                warnings.simplefilter("ignore")
                try:
                    desc, r = step(rng, pool)
                except (ValueError, NotImplementedError, TypeError, IndexError):
                    continue  # clean rejection of an inapplicable combination is C18's business
                except Exception as e:  # noqa: BLE001 — an internal error is C18's business too; it must not stop this check
                    ctx.notes.setdefault("step_internal_errors", []).append(f"{type(e).__name__}: {str(e)[:80]}")
                    continue
            if desc is None:
                continue
            trace.append(desc)
            if not isinstance(r, sparse.SparseArray):
                continue
            case = {"inputs": descs, "program": list(trace), "result_type": type(r).__name__, "result_shape": list(r.shape)}
            ctx.case(f"C:{desc.split('(')[0].split('[')[0]}", case)
            msg = impl.canonical_problem(r)
            if not msg:
                # operands stored no fill values (from_numpy never does) => the result stores none, nnz == number of non-fill elements
                msg = impl.nofill_problem(r)
                if not msg:
                    dd = r.todense()
                    from impl import equivalent
                    cnt = int((~np.asarray(equivalent(dd, r.fill_value))).sum()) if dd.size else 0
                    if r.nnz != cnt:
                        msg = f"nnz {r.nnz} but {cnt} elements differ from the fill value"
            if msg:
                ctx.fail("C", desc, case, msg, finding=findings.classify(PID, desc, case, msg))
                break
            if r.size <= 400:
                pool.append(r)
        if it % 200 == 0:
            core.log(f"C06 leg C {it}/{n}")


def leg_c_creation(ctx, rng, quick):
    """creation functions return arrays too: the whole small grid of eye(N, M, k) in every format, and full / zeros / ones /
    random(density | nnz) on a grid of shapes — canonical form, no stored fill value, values"""
    import sparse

    def chk(desc, thunk, ref):
        case = {"call": desc}
        ctx.case(f"C:create:{desc.split('(')[0]}", case)
        try:
            with warnings.catch_warnings():
                warnings.simplefilter("ignore")
                r = thunk()
        except Exception as e:  # noqa: BLE001 — every argument here is valid
            ctx.fail("C", "create", case, f"raised {type(e).__name__}: {str(e)[:120]}", finding=findings.classify(PID, desc, case, "raised"))
            return
        msg = impl.canonical_problem(r) or impl.nofill_problem(r)
        if not msg and ref is not None:
            dd = r.todense()
            if dd.shape != ref.shape or not np.array_equal(dd, ref):
                msg = f"values differ from NumPy's (shape {dd.shape} vs {ref.shape})"
        if msg:
            ctx.fail("C", "create", case, msg, finding=findings.classify(PID, desc, case, msg))

    top = 5 if quick else 7
    for fmt in ("coo", "gcxs", "dok"):
        for N in range(top):
            for M in range(top):
                for k in range(-top - 1, top + 2):
                    chk(f"eye({N},{M},k={k},format={fmt})", lambda: sparse.eye(N, M, k=k, format=fmt), np.eye(N, M, k=k))
        for shp in [(0,), (3,), (2, 3), (3, 0), (2, 1, 3), ()]:
            for v in (0, 2):
                chk(f"full({shp},{v},format={fmt})", lambda: sparse.full(shp, v, format=fmt), np.full(shp, v))
            chk(f"zeros({shp},format={fmt})", lambda: sparse.zeros(shp, format=fmt), np.zeros(shp))
            chk(f"ones({shp},format={fmt})", lambda: sparse.ones(shp, format=fmt), np.ones(shp))
            size = int(np.prod(shp))
            for nnz in sorted({0, min(1, size), size // 2, size}):
                chk(f"random({shp},nnz={nnz},format={fmt})", lambda: sparse.random(shp, nnz=nnz, format=fmt, random_state=int(rng.integers(1 << 30))), None)
            for dens in (0.0, 0.3, 1.0):
                chk(f"random({shp},density={dens},format={fmt})",
                    lambda: sparse.random(shp, density=dens, format=fmt, random_state=int(rng.integers(1 << 30)), fill_value=int(rng.choice([0, 2]))), None)


# ---------------------------------------------------------------------------------------------------
# leg expr: random PROGRAMS of the Expr type — model (evalModel) vs code vs NumPy vs spec (evalSpec)
# ---------------------------------------------------------------------------------------------------

def leg_expr(ctx, rng, n, max_depth):
    """ties `program_canonical` / `program_refines` / `program_errors` (Props/Program.lean) to the code:
    every generated program is run by the model, by the dense reference semantics, by the real library
    (COO inputs; a second run with GCXS or DOK inputs where the operation is offered) and by NumPy."""
    import sparse
    from impl import equivalent

    import c06_expr as E

    progs = [E.gen_program(rng, max_depth) for _ in range(n)]
    reqs = []
    for p in progs:
        j = p.js()
        reqs.append(["program", j])
        reqs.append(["program_spec", j])
    outs = ctx.driver.run(reqs)
    stats = {"programs": n, "max_depth": max_depth, "by_kind": {}, "by_depth": {}, "model_errors": {}, "oracle_errors": 0,
             "ok": 0, "variant_runs": {"gcxs": 0, "dok": 0}, "intermediate_arrays_checked": 0, "inputs_with_stored_fill": 0,
             "programs_with_clean_inputs": 0}
    for i, p in enumerate(progs):
        m, s = outs[2 * i], outs[2 * i + 1]
        kinds = p.kinds()
        for k in kinds:
            stats["by_kind"][k] = stats["by_kind"].get(k, 0) + 1
        stats["by_depth"][str(p.depth)] = stats["by_depth"].get(str(p.depth), 0) + 1
        case = {"program": p.describe(), "json": p.js(), "depth": p.depth, "oracle": p.err or {"shape": list(p.dense.shape), "fill": p.fill}}
        fam = f"E:{p.kind}"
        ctx.case(fam, {"json": case["json"]}, nontrivial=(p.depth >= 1))
        if "bad" in m or "bad" in s:
            ctx.fail("A", "expr:driver", case, f"driver rejected the program: {m} {s}")
            continue
        if "err" in m:
            stats["model_errors"][m["err"]] = stats["model_errors"].get(m["err"], 0) + 1
        # ---- leg B: the reference semantics vs NumPy ---------------------------------------------
        if p.err:
            stats["oracle_errors"] += 1
            if "err" not in s:
                ctx.fail("B", "expr:spec-vs-numpy", case, f"NumPy / the contract raises ({p.err}) but evalSpec returns {str(s)[:200]}")
        else:
            stats["ok"] += 1
            want = {"shape": list(p.dense.shape), "flat": [int(v) for v in p.dense.reshape(-1)], "fill": p.fill}
            if s.get("ok") != want:
                ctx.fail("B", "expr:spec-vs-numpy", case, f"evalSpec {str(s)[:300]} but NumPy {str(want)[:300]}")
        # ---- the code, COO inputs ----------------------------------------------------------------
        seen = []
        try:
            r = E.run_impl(p, "coo", rng, seen)
            got = None
        except Exception as e:  # noqa: BLE001
            r, got = None, e
        # leg A: model vs code, on the representation / the error class
        if got is not None:
            cls = impl.err_class(got)
            if m.get("err") != cls:
                ctx.fail("A", "expr:error-class", case, f"code raises {type(got).__name__} ({cls}): {str(got)[:120]}; model {str(m)[:200]}")
        else:
            rep = impl.coo_json(r) if isinstance(r, sparse.COO) else {"type": type(r).__name__}
            if m.get("ok") != rep:
                ctx.fail("A", "expr:representation", case, f"code {str(rep)[:400]} but model {str(m)[:400]}")
        # leg C: the property — canonical form of every array produced, NumPy's values, fill value
        leaves_clean = all(impl.nofill_problem(x) is None for d, x in seen if d == "lit")
        stats["inputs_with_stored_fill"] += sum(1 for d, x in seen if d == "lit" and impl.nofill_problem(x))
        stats["programs_with_clean_inputs"] += int(leaves_clean)
        msg = check_run(p, r, got, seen, leaves_clean, equivalent)
        stats["intermediate_arrays_checked"] += len(seen)
        if msg:
            ctx.fail("C", f"expr:{p.kind}", case, msg, finding=findings.classify(PID, f"expr:{p.kind}", case, msg))
            continue
        # ---- the code, GCXS / DOK inputs ---------------------------------------------------------
        if rng.random() < 0.6:
            fmt = str(rng.choice(["gcxs", "dok"]))
            stats["variant_runs"][fmt] += 1
            seen2 = []
            try:
                r2 = E.run_impl(p, fmt, rng, seen2)
                got2 = None
            except Exception as e:  # noqa: BLE001
                r2, got2 = None, e
            msg = check_run(p, r2, got2, seen2, False, equivalent)
            stats["intermediate_arrays_checked"] += len(seen2)
            if msg:
                c2 = dict(case, inputs_format=fmt)
                ctx.fail("C", f"expr[{fmt}]:{p.kind}", c2, msg, finding=findings.classify(PID, f"expr[{fmt}]:{p.kind}", c2, msg))
        if i % 200 == 0:
            core.log(f"C06 leg expr {i}/{n}")
    ctx.cov["expr"] = stats


def check_run(p, r, got, seen, leaves_clean, equivalent):
    """the property on one run of program p: None or a description of the violation"""
    for desc, arr in seen:
        m = impl.canonical_problem(arr)
        if m:
            return f"result of step `{desc}` ({type(arr).__name__}, shape {arr.shape}) is not canonical: {m}"
    if p.err:
        if got is None:
            return f"NumPy / the contract raises ({p.err}) but the library returned {type(r).__name__} of shape {getattr(r, 'shape', None)}"
        if impl.err_class(got) == "internal":
            return f"unclean failure {type(got).__name__}: {str(got)[:160]} (expected: {p.err})"
        return None
    if got is not None:
        return f"the library raises {type(got).__name__}: {str(got)[:160]} but NumPy returns shape {list(p.dense.shape)}"
    if tuple(r.shape) != tuple(p.dense.shape):
        return f"shape {tuple(r.shape)} but NumPy {tuple(p.dense.shape)}"
    if int(r.fill_value) != p.fill:
        return f"fill value {r.fill_value} but the function of the fill values is {p.fill}"
    d = np.asarray(r.todense())
    if not np.array_equal(d, p.dense):
        return f"values differ from NumPy at {np.argwhere(d != p.dense)[:3].tolist()}: got {d[d != p.dense][:3].tolist()} want {p.dense[d != p.dense][:3].tolist()}"
    if leaves_clean:
        m = impl.nofill_problem(r)
        if m:
            return f"inputs store no fill-valued entry but the result does: {m}"
        cnt = int((~np.asarray(equivalent(d, r.fill_value))).sum()) if d.size else 0
        if r.nnz != cnt:
            return f"nnz {r.nnz} but {cnt} elements differ from the fill value"
    return None


def run(ctx):
    ctx.trusted = TRUSTED
    ctx.assumptions = ["inputs are built with from_numpy (canonical, no stored fill values)"]
    core.prove(ctx, PID, extra_targets=["SparseV.Props.Program"], uses=["promiseSites", "normalizeAxisInt", "bcastOk", "bcastDim",
                                                                        "replaceNone", "posifySlice", "posifyInt", "clipSlice", "checkIndexInt"])
    rng = gen.rng_for(ctx.seed, PID)
    leg_a(ctx, rng, 300 if ctx.quick else 3000)
    leg_c(ctx, rng, 500 if ctx.quick else 6000)
    leg_c_creation(ctx, rng, ctx.quick)
    leg_expr(ctx, gen.rng_for(ctx.seed, PID + ":expr"), 500 if ctx.quick else 30000, 6 if ctx.quick else 10)
    ctx.cov["rule"] = ("leg A: canonical and deliberately broken coordinate lists / CSR triples, Lean predicate vs Python checker; leg C: random programs "
                       "(depth<=4) over 27 operation kinds and COO/GCXS/DOK inputs, every sparse result checked for canonical form, no stored fill values and "
                       "nnz == number of non-fill elements; leg expr: random Expr programs (depth <= 6 quick / 10 thorough; literal inputs with unsorted / repeated "
                       "coordinates, explicit fill-valued data, nonzero fills, zero-extent axes; 19 operation kinds; a few percent deliberately invalid arguments) run by "
                       "evalModel, evalSpec, the library (COO inputs, and GCXS / DOK inputs where offered) and NumPy: representation and error class model-vs-code, "
                       "values + fill spec-vs-NumPy and code-vs-NumPy, canonical form of every intermediate array; distinct by content hash")

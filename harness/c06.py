"""C06 — every returned array is in canonical, self-consistent form."""
from __future__ import annotations

import warnings

import numpy as np

import core
import findings
import gen
import impl

PID = "C06"
TRUSTED = [
    "Lean 4 kernel; axioms propext, Classical.choice, Quot.sound only (audited per theorem each run)",
    "tie T1: Gen.promiseSites (every constructor call with sorted=/has_duplicates= promises or a ready-made GCXS triple) regenerated from the source each run; "
    "promise_sites_covered is re-decided over the whole table",
    "tie T2: the implementation-side canonicity checker (harness/impl.py) is the executable twin of the Lean predicates and is compared with them on generated "
    "(including deliberately broken) coordinate lists and CSR triples each run",
    "producers without a Lean model are covered by the checker on random programs only",
]


def leg_a(ctx, rng, n):
    """checker (Python) vs Lean predicate"""
    import sparse

    reqs, metas = [], []
    for _ in range(n):
        shp = gen.shape(rng, 1, 3, extents=[1, 2, 3, 4])
        k = int(rng.integers(0, 7))
        mode = str(rng.choice(["sorted", "unsorted", "dup", "oob"]))
        coords = np.array([[int(rng.integers(0, d)) for d in shp] for _ in range(k)], dtype=np.int64).reshape(k, len(shp))
        if mode in ("sorted", "oob") and k:
            lin = np.ravel_multi_index(tuple(coords.T), shp)
            _, first = np.unique(lin, return_index=True)
            coords = coords[np.sort(first)]
            coords = coords[np.argsort(np.ravel_multi_index(tuple(coords.T), shp), kind="stable")]
        if mode == "oob" and len(coords):
            coords[int(rng.integers(len(coords))), int(rng.integers(len(shp)))] = shp[0] + 5
        data = rng.integers(1, 4, size=len(coords))
        x = sparse.COO(np.zeros((len(shp), 0), dtype=np.int64), np.zeros(0, dtype=np.int64), shape=shp)
        x.coords, x.data = coords.T.copy(), data  # bypass the constructor on purpose
        want = impl.canonical_problem(x) is None
        reqs.append(["coo_canonical", impl.raw_json(shp, coords.tolist(), data.tolist(), 0)])
        metas.append(({"kind": "coo", "mode": mode, "shape": list(shp), "coords": coords.tolist()}, want))
        # CSR triple
        rows, cols = int(rng.integers(1, 4)), int(rng.integers(1, 5))
        counts = rng.integers(0, cols + 1, size=rows)
        indptr = np.concatenate([[0], np.cumsum(counts)])
        indices = np.concatenate([np.sort(rng.choice(cols, size=c, replace=False)) for c in counts]).astype(np.int64) if counts.sum() else np.zeros(0, dtype=np.int64)
        mode2 = str(rng.choice(["ok", "ok", "rev", "ptr", "col"]))
        if mode2 == "rev" and len(indices) > 1:
            indices = indices[::-1].copy()
        if mode2 == "ptr" and rows > 1:
            indptr[1] = indptr[-1] + 1
        if mode2 == "col" and len(indices):
            indices[-1] = cols
        g = sparse.GCXS((np.ones(len(indices), dtype=np.int64), indices, indptr), shape=(rows, cols), compressed_axes=(0,))
        want2 = impl.canonical_problem(g) is None
        reqs.append(["gcxs_canonical", indptr.tolist(), indices.tolist(), rows, cols, int(len(indices))])
        metas.append(({"kind": "gcxs", "mode": mode2, "indptr": indptr.tolist(), "indices": indices.tolist(), "shape": [rows, cols]}, want2))
    outs = ctx.driver.run(reqs)
    nbad = 0
    for (case, want), out in zip(metas, outs):
        ctx.case(f"A:checker:{case['kind']}", case)
        if not want:
            nbad += 1
        if out.get("ok") != want:
            ctx.fail("A", "checker-vs-predicate", case, f"Lean predicate {out}, Python checker {want}")
    ctx.notes["checker_cases_noncanonical"] = nbad


# ---------------------------------------------------------------------------------------------------
# leg C: random programs; every produced array is checked
# ---------------------------------------------------------------------------------------------------

def step(rng, pool):
    """pick an operation applicable to arrays in the pool; returns (description, result)"""
    import sparse

    x = pool[int(rng.integers(len(pool)))]
    nd = x.ndim
    op = str(rng.choice(["ew1", "ew2", "index", "reduce", "transpose", "reshape", "concat", "stack", "dot", "convert", "sort", "roll", "flip", "pad",
                         "bcast", "where", "astype", "triu", "diagonal", "expand", "squeeze", "round", "kron", "tensordot", "unique", "argmax", "nonzero", "dok_assign"]))
    coo = x.asformat("coo") if not isinstance(x, sparse.COO) else x
    if op == "dok_assign" and nd and x.size:
        # assigning a value that becomes the fill value only after the cast to the array's dtype must not leave a stored entry
        dk = x.asformat("dok")
        key = tuple(int(rng.integers(0, e)) for e in dk.shape)
        v = float(rng.choice([0.5, -0.25, 2.0])) + (float(dk.fill_value) if np.dtype(dk.dtype).kind in "iu" else 0.0) * 0
        if np.dtype(dk.dtype).kind in "iu":
            v = float(dk.fill_value) + float(rng.choice([0.4, -0.3, 2.0]))
        dk[key] = v
        return f"dok[{key}]={v}; tocoo", dk.asformat(str(rng.choice(["coo", "gcxs", "dok"])))
    if op == "ew1":
        f = rng.choice([np.negative, np.abs, np.sign, np.square, np.sin, np.expm1])
        return f"{f.__name__}(x)", f(x)
    if op == "ew2":
        y = next((p for p in pool if p.shape == x.shape and p is not x), x)
        f = rng.choice([np.add, np.multiply, np.subtract, np.maximum, np.minimum])
        try:
            return f"{f.__name__}(x,y)", f(x, y)
        except ValueError:
            return f"{f.__name__}(x,x)", f(x, x)
    if op == "index" and nd:
        idx = tuple(gen.rand_slice(rng, d) if rng.random() < 0.7 else (int(rng.integers(0, d)) if d else slice(None)) for d in x.shape[: int(rng.integers(1, nd + 1))])
        return f"x[{idx}]", x[idx]
    if op == "reduce" and nd and not isinstance(x, sparse.DOK):
        ax = tuple(int(a) for a in rng.permutation(nd)[: int(rng.integers(1, nd + 1))])
        f = str(rng.choice(["sum", "max", "min", "prod", "any"]))
        return f"x.{f}(axis={ax})", getattr(x, f)(axis=ax, keepdims=bool(rng.random() < 0.5))
    if op == "transpose" and nd and not isinstance(x, sparse.DOK):
        p = tuple(int(a) for a in rng.permutation(nd))
        return f"x.transpose({p})", x.transpose(p)
    if op == "reshape" and x.size and not isinstance(x, sparse.DOK):
        return "x.reshape(-1)", x.reshape((-1,))
    if op in ("concat", "stack") and nd:
        ax = int(rng.integers(0, nd))
        f = sparse.concatenate if op == "concat" else sparse.stack
        return f"{op}([x,x],{ax})", f([x, x], axis=ax)
    if op == "dot" and nd in (1, 2) and x.fill_value == 0 and not isinstance(x, sparse.DOK):
        return "x @ x.T", x @ x.T
    if op == "tensordot" and nd >= 1 and x.fill_value == 0 and not isinstance(x, sparse.DOK):
        return "tensordot(x,x,axes=([0],[0]))", sparse.tensordot(x, x, axes=([0], [0]))
    if op == "kron" and nd <= 2 and x.fill_value == 0 and x.size <= 36 and not isinstance(x, sparse.DOK):
        return "kron(x,x)", sparse.kron(x, x)
    if op == "convert":
        f = str(rng.choice(["coo", "gcxs", "dok"]))
        if f == "dok" and nd == 0:
            f = "coo"
        return f"x.asformat({f})", x.asformat(f)
    if op == "sort" and nd:
        return "sort(coo)", sparse.sort(coo, axis=int(rng.integers(-nd, nd)))
    if op == "roll" and nd and x.size:
        return "roll(coo,1,0)", sparse.roll(coo, int(rng.integers(-3, 4)), axis=int(rng.integers(0, nd)))
    if op == "flip" and nd:
        return "flip(x)", sparse.flip(x)
    if op == "pad" and nd:
        return "pad(x,1)", sparse.pad(x, 1, constant_values=x.fill_value)
    if op == "bcast":
        return "broadcast_to(coo,(2,)+shape)", sparse.broadcast_to(coo, (2,) + coo.shape)
    if op == "where":
        return "where(x>0,x,fill)", sparse.where(coo > 0, coo, coo.fill_value)
    if op == "astype":
        return "x.astype(float)", x.astype(np.float64)
    if op == "triu" and nd >= 2 and x.fill_value == 0:
        return "triu(coo,1)", sparse.triu(coo, int(rng.integers(-2, 3)))
    if op == "diagonal" and nd >= 2 and x.shape[0] == x.shape[1]:
        return "diagonal(coo)", sparse.diagonal(coo, offset=int(rng.integers(-2, 3)))
    if op == "expand":
        return "expand_dims(x,0)", sparse.expand_dims(x, axis=0)
    if op == "squeeze" and isinstance(x, sparse.COO):
        return "x.squeeze()", x.squeeze()
    if op == "round":
        return "x.round(1)", x.round(1)
    if op == "unique" and nd and x.size:
        return "unique_values(coo)", sparse.asarray(sparse.unique_values(coo.flatten() if nd != 1 else coo))
    if op == "argmax" and nd and x.size:
        return "argmax(coo,axis=0)", sparse.argmax(coo, axis=0)
    if op == "nonzero" and nd and x.fill_value == 0:
        nz = coo.nonzero()
        return "nonzero(coo)", sparse.asarray(np.asarray(nz[0]))
    return None, None


def leg_c(ctx, rng, n):
    import sparse

    for it in range(n):
        pool, descs = [], []
        for _ in range(3):
            shp = gen.shape(rng, 1, 3, extents=[1, 2, 2, 3, 3, 4, 5], max_size=80)
            fill = int(rng.choice([0, 0, 0, 2]))
            d = gen.dense(rng, shp, fill, density=float(rng.choice([0.15, 0.4, 0.7, 1.0])))
            if rng.random() < 0.3:
                d = d.astype(np.float64) / 2
            x, fd = gen.to_format(rng, d, None, fill)
            pool.append(x); descs.append({"format": fd, "dense": d.tolist(), "fill": fill})
        trace = []
        for depth in range(int(rng.integers(1, 5))):
            with warnings.catch_warnings():
                warnings.simplefilter("ignore")
                try:
                    desc, r = step(rng, pool)
                except (ValueError, NotImplementedError, TypeError):
                    continue  # clean rejection of an inapplicable combination is C18's business
            if desc is None:
                continue
            trace.append(desc)
            if not isinstance(r, sparse.SparseArray):
                continue
            case = {"inputs": descs, "program": list(trace), "result_type": type(r).__name__, "result_shape": list(r.shape)}
            ctx.case(f"C:{desc.split('(')[0].split('[')[0]}", case)
            msg = impl.canonical_problem(r)
            if not msg:
                # operands stored no fill values (from_numpy never does) => the result stores none, nnz == number of non-fill elements
                msg = impl.nofill_problem(r)
                if not msg:
                    dd = r.todense()
                    from sparse.numba_backend._utils import equivalent
                    cnt = int((~np.asarray(equivalent(dd, r.fill_value))).sum()) if dd.size else 0
                    if r.nnz != cnt:
                        msg = f"nnz {r.nnz} but {cnt} elements differ from the fill value"
            if msg:
                ctx.fail("C", desc, case, msg, finding=findings.classify(PID, desc, case, msg))
                break
            if r.size <= 400:
                pool.append(r)
        if it % 200 == 0:
            core.log(f"C06 leg C {it}/{n}")


def run(ctx):
    ctx.trusted = TRUSTED
    ctx.assumptions = ["inputs are built with from_numpy (canonical, no stored fill values)"]
    core.prove(ctx, PID, uses=["promiseSites"])
    rng = gen.rng_for(ctx.seed, PID)
    leg_a(ctx, rng, 300 if ctx.quick else 3000)
    leg_c(ctx, rng, 500 if ctx.quick else 6000)
    ctx.cov["rule"] = ("leg A: canonical and deliberately broken coordinate lists / CSR triples, Lean predicate vs Python checker; leg C: random programs "
                       "(depth<=4) over 27 operation kinds and COO/GCXS/DOK inputs, every sparse result checked for canonical form, no stored fill values and "
                       "nnz == number of non-fill elements; distinct by content hash")

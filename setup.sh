#!/bin/sh
# Build the framework from files on disk only (offline): regenerate the Lean definitions from /repo,
# build the whole Lean library (all property theorems) and the model driver.
set -e
HERE="$(cd "$(dirname "$0")" && pwd)"
cd "$HERE"
mkdir -p evidence replays lean/SparseV/Generated
/venv/bin/python tools/py2lean.py --repo "${VERIF_REPO:-/repo}" --out lean/SparseV/Generated
/venv/bin/python tools/gen_root.py
cd lean
lake build SparseV svdriver

#!/bin/sh
# Build the framework from files on disk only (offline): regenerate the Lean definitions from /repo,
# build the whole Lean library (all property theorems) and the model driver.
set -e
HERE="$(cd "$(dirname "$0")" && pwd)"
cd "$HERE"
mkdir -p evidence replays lean/SparseV/Generated
/venv/bin/python tools/py2lean.py --repo "${VERIF_REPO:-/repo}" --out lean/SparseV/Generated
/venv/bin/python tools/gen_root.py
cd lean
lake build svdriver
# build every module; a proof that does not check against the current source is reported by that
# property's own check (VIOLATION ... no-failing-input-found), it must not stop the setup
lake build SparseV || echo "setup: some Lean modules do not build; the individual checks report which"
